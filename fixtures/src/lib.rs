//! Deliberately bad code.  Every rule whose expected number of hits on the
//! repository is zero must fire here on every run (otherwise the rule is dead
//! and the check fails).  Never linked into anything.
#![allow(dead_code, unused)]
pub mod c05;
pub mod c08;
pub mod c09;
pub mod c12;
pub mod c13;
pub mod c16;
