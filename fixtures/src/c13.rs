// R1 positive examples: each lets NaN or the first out-of-range value reach the cast
pub fn int_nan_blind(v: f64) -> Result<i64, ()> {
    if v > i64::MAX as f64 || v < i64::MIN as f64 {
        return Err(());
    }
    Ok(v as i64)
}
pub fn uint_closed_upper(v: f64) -> Result<u64, ()> {
    if v.is_nan() || v < 0.0 || v > u64::MAX as f64 {
        return Err(());
    }
    Ok(v as u64)
}
pub fn no_guard(v: f64) -> i64 {
    v as i64
}
// correctly guarded twins: the analysis must accept them
pub fn good_int(v: f64) -> Result<i64, ()> {
    if v.is_nan() || v >= i64::MAX as f64 || v < i64::MIN as f64 {
        return Err(());
    }
    Ok(v as i64)
}
pub fn good_uint_negated(v: f64) -> Result<u64, ()> {
    if !(v >= 0.0 && v < 18446744073709551616.0) {
        return Err(());
    }
    Ok(v as u64)
}
pub fn good_int_match(v: f64) -> Option<i64> {
    match v {
        x if x.is_finite() && x < 9223372036854775808.0 && x >= -9223372036854775808.0 => Some(x as i64),
        _ => None,
    }
}
