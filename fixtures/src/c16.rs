//! C16 R5 / C17 R5: conversions that replace a timestamp's UTC offset.
use chrono::{DateTime, FixedOffset, Utc};

pub fn parse_as_utc(v: &str) -> Option<DateTime<FixedOffset>> {
    Some(v.parse::<DateTime<Utc>>().ok()?.fixed_offset())
}

pub fn hours_in_utc(t: &DateTime<FixedOffset>) -> u32 {
    use chrono::Timelike;
    t.to_utc().hour()
}

pub fn rezoned(t: &DateTime<FixedOffset>) -> DateTime<FixedOffset> {
    t.with_timezone(&FixedOffset::east_opt(0).unwrap())
}

pub fn local_fields(a: &DateTime<FixedOffset>, b: &DateTime<FixedOffset>) -> bool {
    a.naive_local() == b.naive_local()
}

/// keeps the offset: must stay silent
pub fn good_parse(v: &str) -> Option<DateTime<FixedOffset>> {
    v.parse::<DateTime<FixedOffset>>().ok()
}
