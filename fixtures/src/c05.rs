use std::cell::RefCell;
use std::collections::HashMap;
use std::rc::Rc;
use std::sync::atomic::{AtomicUsize, Ordering};
use std::sync::{Arc, Mutex};

// O2: interior mutability / Rc / non-Send dyn in a "context"
pub struct BadCtx {
    cache: RefCell<HashMap<String, i64>>,
    shared: Rc<String>,
    lock: Mutex<i64>,
    f: Box<dyn Fn(i64) -> i64>,
}

// O3: global state
static COUNTER: AtomicUsize = AtomicUsize::new(0);
static mut RAW: usize = 0;
thread_local! { static TL: RefCell<i64> = RefCell::new(0); }

// O1: user-written unsafe
pub fn in_place(v: &Arc<Vec<i64>>) {
    unsafe {
        let p = Arc::as_ptr(v) as *mut Vec<i64>;
        (*p).push(1);
    }
}
pub unsafe fn raw() {}
pub struct Marker(*const u8);
unsafe impl Send for Marker {}

// O4: make_mut on something reached through a reference
pub fn append(v: &mut Arc<Vec<i64>>) {
    Arc::make_mut(v).push(1);
}

// O6: nondeterminism
pub fn now() -> u128 {
    COUNTER.fetch_add(1, Ordering::SeqCst);
    TL.with(|t| *t.borrow_mut() += 1);
    std::time::SystemTime::now().duration_since(std::time::UNIX_EPOCH).unwrap().as_nanos()
        + std::env::var("X").map(|s| s.len() as u128).unwrap_or(0)
}
