use std::cmp::Ordering;
// R3: lossy int -> float comparison
pub fn lossy_eq(a: &i64, b: &f64) -> bool {
    (*a as f64) == *b
}
// R3: float -> int cast behind a NaN-blind guard (the negated comparison lets NaN and 2^63 through)
pub fn bad_cmp(a: i64, b: f64) -> Option<Ordering> {
    if b > i64::MAX as f64 || b < i64::MIN as f64 {
        return None;
    }
    Some(a.cmp(&(b as i64)))
}
// properly guarded twin: must stay silent
pub fn good_cmp(a: i64, b: f64) -> Option<Ordering> {
    if b.is_nan() {
        return None;
    }
    if b >= 9223372036854775808.0 {
        return Some(Ordering::Less);
    }
    if b < -9223372036854775808.0 {
        return Some(Ordering::Greater);
    }
    Some(a.cmp(&(b.trunc() as i64)))
}
