use std::cmp::Ordering;
// R3: lossy int -> float comparison
pub fn lossy_eq(a: &i64, b: &f64) -> bool {
    (*a as f64) == *b
}
// R3: float -> int cast behind a NaN-blind guard (the negated comparison lets NaN and 2^63 through)
pub fn bad_cmp(a: i64, b: f64) -> Option<Ordering> {
    if b > i64::MAX as f64 || b < i64::MIN as f64 {
        return None;
    }
    Some(a.cmp(&(b as i64)))
}
// properly guarded twin: must stay silent
pub fn good_cmp(a: i64, b: f64) -> Option<Ordering> {
    if b.is_nan() {
        return None;
    }
    if b >= 9223372036854775808.0 {
        return Some(Ordering::Less);
    }
    if b < -9223372036854775808.0 {
        return Some(Ordering::Greater);
    }
    Some(a.cmp(&(b.trunc() as i64)))
}
// R3: sign-changing cast without a guard (18446744073709551615u == -1)
pub fn wrapping_eq(a: &u64, b: &i64) -> bool {
    *a == *b as u64
}
// guarded twins: must stay silent
pub fn good_int_eq(a: &i64, b: &u64) -> bool {
    *a >= 0 && *a as u64 == *b
}
pub fn good_uint_eq(a: &u64, b: &i64) -> bool {
    *a <= i64::MAX as u64 && *a as i64 == *b
}
// off by one: 2^63 itself wraps to i64::MIN
pub fn closed_bound_eq(a: &u64, b: &i64) -> bool {
    *a <= 9223372036854775808 && *a as i64 == *b
}
