//! Broken siblings of `impl Add/Sub/Mul/Div/Rem for Value` and unary minus.
use std::ops;

#[derive(Debug, Clone)]
pub enum Value {
    Int(i64),
    UInt(u64),
    Float(f64),
    Null,
}
#[derive(Debug)]
pub enum ExecutionError {
    IntegerOverflow(&'static str, Value, Value),
    DivisionByZero(Value),
    RemainderByZero(Value),
    Unsupported(Value, Value),
}
type R = Result<Value, ExecutionError>;

impl ops::Add for Value {
    type Output = R;
    fn add(self, rhs: Value) -> R {
        match (self, rhs) {
            // R1: raw `+`
            (Value::Int(l), Value::Int(r)) => Ok(Value::Int(l + r)),
            (Value::UInt(l), Value::UInt(r)) => l
                .checked_add(r)
                .ok_or(ExecutionError::IntegerOverflow("add", Value::UInt(l), Value::UInt(r)))
                .map(Value::UInt),
            // R4: coercion arm + cast
            (Value::Int(l), Value::Float(r)) => Ok(Value::Float(l as f64 + r)),
            (Value::Float(l), Value::Float(r)) => Ok(Value::Float(l + r)),
            (l, r) => Err(ExecutionError::Unsupported(l, r)),
        }
    }
}

impl ops::Sub for Value {
    type Output = R;
    fn sub(self, rhs: Value) -> R {
        match (self, rhs) {
            // R1: wrapping
            (Value::Int(l), Value::Int(r)) => Ok(Value::Int(l.wrapping_sub(r))),
            // R2: operands swapped
            (Value::UInt(l), Value::UInt(r)) => r
                .checked_sub(l)
                .ok_or(ExecutionError::IntegerOverflow("sub", Value::UInt(l), Value::UInt(r)))
                .map(Value::UInt),
            (l, r) => Err(ExecutionError::Unsupported(l, r)),
        }
    }
}

impl ops::Mul for Value {
    type Output = R;
    fn mul(self, rhs: Value) -> R {
        match (self, rhs) {
            // R2: wrong checked op for this trait
            (Value::Int(l), Value::Int(r)) => l
                .checked_add(r)
                .ok_or(ExecutionError::IntegerOverflow("mul", Value::Int(l), Value::Int(r)))
                .map(Value::Int),
            (Value::UInt(l), Value::UInt(r)) => l
                .checked_mul(r)
                .ok_or(ExecutionError::IntegerOverflow("mul", Value::UInt(l), Value::UInt(r)))
                .map(Value::UInt),
            (l, r) => Err(ExecutionError::Unsupported(l, r)),
        }
    }
}

impl ops::Div for Value {
    type Output = R;
    fn div(self, rhs: Value) -> R {
        match (self, rhs) {
            // R3: no zero test -> MIN / -1 and x / 0 share one error
            (Value::Int(l), Value::Int(r)) => l
                .checked_div(r)
                .ok_or(ExecutionError::IntegerOverflow("div", Value::Int(l), Value::Int(r)))
                .map(Value::Int),
            // R2: saturating fallback
            (Value::UInt(l), Value::UInt(r)) => Ok(Value::UInt(l.checked_div(r).unwrap_or(u64::MAX))),
            (l, r) => Err(ExecutionError::Unsupported(l, r)),
        }
    }
}

impl ops::Rem for Value {
    type Output = R;
    fn rem(self, rhs: Value) -> R {
        match (self, rhs) {
            (Value::Int(l), Value::Int(r)) => {
                if r == 0 {
                    Err(ExecutionError::RemainderByZero(Value::Int(l)))
                } else {
                    // R2: result wrapped in the wrong constructor
                    l.checked_rem(r)
                        .ok_or(ExecutionError::IntegerOverflow("rem", Value::Int(l), Value::Int(r)))
                        .map(|v| Value::UInt(v as u64))
                }
            }
            (Value::UInt(l), Value::UInt(r)) => l
                .checked_rem(r)
                .ok_or(ExecutionError::RemainderByZero(Value::UInt(l)))
                .map(Value::UInt),
            (l, r) => Err(ExecutionError::Unsupported(l, r)),
        }
    }
}

pub fn resolve(v: Value) -> R {
    match v {
        Value::Int(i) => Ok(Value::Int(-i)),
        Value::Float(f) => Ok(Value::Float(-f)),
        other => Err(ExecutionError::Unsupported(other, Value::Null)),
    }
}
