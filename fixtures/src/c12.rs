//! C12 R3: greedy trimming of delimiters eats quote characters that belong to the content.
pub fn greedy_delimiters(body: &str) -> &str {
    let quote = if body.starts_with('\'') { '\'' } else { '"' };
    body.trim_matches(quote)
}

pub fn greedy_suffix(body: &str) -> &str {
    body.trim_start_matches("'''").trim_end_matches('\'')
}

/// exact stripping: must stay silent
pub fn good_exact(body: &str) -> Option<&str> {
    body.strip_prefix('\'')?.strip_suffix('\'')
}
