//! Compile-time witnesses for C05 / C11 / C20.  Nothing here is ever *run*:
//! compile-pass twins are `no_run`, the others must be rejected by rustc with
//! the stated error code (checked on nightly, `cargo +nightly test --doc`).
//! Every `compile_fail` witness has a compiling twin that differs only in the
//! offending line, so that a witness whose paths are merely wrong cannot pass.
#![allow(dead_code)]

// ------------------------------------------------------------------ C05

/// ```no_run
/// use cel_interpreter::{Context, ExecutionError, Program, Value};
/// fn is<T: Send + Sync>() {}
/// is::<Program>();
/// is::<Context<'static>>();
/// is::<Value>();
/// is::<ExecutionError>();
/// ```
pub struct C05SendSyncPass;

/// A program and a root context shared by reference among scoped threads, each
/// executing in an inner scope of its own (the property's sharing pattern).
/// ```no_run
/// use cel_interpreter::{Context, Program};
/// let program = Program::compile("a + b").unwrap();
/// let mut root = Context::default();
/// root.add_variable_from_value("a", 1i64);
/// let (p, r) = (&program, &root);
/// std::thread::scope(|s| {
///     for i in 0..4i64 {
///         s.spawn(move || {
///             let mut inner = r.new_inner_scope();
///             inner.add_variable_from_value("b", i);
///             let _ = p.execute(&inner);
///         });
///     }
/// });
/// ```
pub struct C05ScopedSharePass;

/// ```compile_fail,E0596
/// use cel_interpreter::Context;
/// let mut ctx = Context::default();
/// let r = &ctx;
/// r.add_variable_from_value("a", 1i64);
/// ```
pub struct C05MutateThroughSharedRefFail;

/// ```no_run
/// use cel_interpreter::Context;
/// let mut ctx = Context::default();
/// let r = &mut ctx;
/// r.add_variable_from_value("a", 1i64);
/// ```
pub struct C05MutateThroughSharedRefPass;

/// `execute` cannot be handed a context it could mutate while another thread
/// reads it: executing needs only `&`, and mutation needs `&mut` (exclusive).
/// ```compile_fail,E0502
/// use cel_interpreter::{Context, Program};
/// let program = Program::compile("a").unwrap();
/// let mut root = Context::default();
/// let r = &root;
/// root.add_variable_from_value("a", 1i64);
/// let _ = program.execute(r);
/// ```
pub struct C05MutateWhileSharedFail;

/// ```no_run
/// use cel_interpreter::{Context, Program};
/// let program = Program::compile("a").unwrap();
/// let mut root = Context::default();
/// root.add_variable_from_value("a", 1i64);
/// let r = &root;
/// let _ = program.execute(r);
/// ```
pub struct C05MutateWhileSharedPass;

/// ```compile_fail,E0277
/// use cel_interpreter::Context;
/// let state = std::rc::Rc::new(1i64);
/// let mut ctx = Context::default();
/// ctx.add_function("f", move || *state);
/// ```
pub struct C05NonSendClosureFail;

/// ```no_run
/// use cel_interpreter::Context;
/// let state = std::sync::Arc::new(1i64);
/// let mut ctx = Context::default();
/// ctx.add_function("f", move || *state);
/// ```
pub struct C05NonSendClosurePass;

/// A closure with interior-mutable (non-Sync) captured state is rejected too.
/// ```compile_fail,E0277
/// use cel_interpreter::Context;
/// let state = std::cell::Cell::new(1i64);
/// let mut ctx = Context::default();
/// ctx.add_function("f", move || { state.set(state.get() + 1); state.get() });
/// ```
pub struct C05NonSyncClosureFail;

/// ```no_run
/// use cel_interpreter::Context;
/// let state = std::sync::atomic::AtomicI64::new(1);
/// let mut ctx = Context::default();
/// ctx.add_function("f", move || state.load(std::sync::atomic::Ordering::SeqCst));
/// ```
pub struct C05NonSyncClosurePass;

/// `Program::execute` and `references` take `&self`, `execute` takes `&Context`.
/// ```no_run
/// use cel_interpreter::{Context, Program, Value, ExecutionError};
/// let _: fn(&Program, &Context) -> Result<Value, ExecutionError> = |p, c| p.execute(c);
/// fn twice(p: &Program, c: &Context) { let _ = p.execute(c); let _ = p.execute(c); let _ = p.references(); }
/// ```
pub struct C05ExecuteSharedSignaturePass;

// ------------------------------------------------------------------ C11

/// A parent cannot be mutated while an inner scope borrows it.
/// ```compile_fail,E0502
/// use cel_interpreter::Context;
/// let mut root = Context::default();
/// let inner = root.new_inner_scope();
/// root.add_variable_from_value("x", 1i64);
/// let _ = inner.get_variable("x");
/// ```
pub struct C11ParentMutWhileInnerAliveFail;

/// ```no_run
/// use cel_interpreter::Context;
/// let mut root = Context::default();
/// let inner = root.new_inner_scope();
/// let _ = inner.get_variable("x");
/// root.add_variable_from_value("x", 1i64);
/// ```
pub struct C11ParentMutWhileInnerAlivePass;

/// An inner scope cannot outlive its parent.
/// ```compile_fail,E0597
/// use cel_interpreter::Context;
/// let inner;
/// {
///     let root = Context::default();
///     inner = root.new_inner_scope();
/// }
/// let _ = inner.get_variable("x");
/// ```
pub struct C11InnerOutlivesParentFail;

/// ```no_run
/// use cel_interpreter::Context;
/// let inner;
/// let root = Context::default();
/// {
///     inner = root.new_inner_scope();
/// }
/// let _ = inner.get_variable("x");
/// ```
pub struct C11InnerOutlivesParentPass;

/// Defining in an inner scope needs `&mut` of the *inner* scope only; the
/// parent stays shared (`&`) and therefore unchanged.
/// ```no_run
/// use cel_interpreter::Context;
/// let root = Context::default();          // not even `mut`
/// let mut inner = root.new_inner_scope();
/// inner.add_variable_from_value("x", 1i64);
/// let mut inner2 = inner.new_inner_scope();
/// inner2.add_variable_from_value("x", 2i64);
/// let _ = root.get_variable("x");
/// ```
pub struct C11InnerWriteLeavesParentSharedPass;

// ------------------------------------------------------------------ C20

/// Host closures of arity 0 to 9 over every supported parameter type register.
/// ```no_run
/// use cel_interpreter::{Context, Value, FunctionContext, ExecutionError};
/// use cel_interpreter::extractors::{Arguments, Identifier, This};
/// use std::sync::Arc;
/// let mut c = Context::default();
/// c.add_function("f0", || 0i64);
/// c.add_function("f1", |a: i64| a);
/// c.add_function("f2", |a: i64, _b: u64| a);
/// c.add_function("f3", |a: i64, _b: u64, _c: f64| a);
/// c.add_function("f4", |a: i64, _b: u64, _c: f64, _d: bool| a);
/// c.add_function("f5", |a: i64, _b: u64, _c: f64, _d: bool, _e: Arc<String>| a);
/// c.add_function("f6", |a: i64, _b: u64, _c: f64, _d: bool, _e: Arc<String>, _f: Arc<Vec<u8>>| a);
/// c.add_function("f7", |a: i64, _b: u64, _c: f64, _d: bool, _e: Arc<String>, _f: Arc<Vec<u8>>, _g: Arc<Vec<Value>>| a);
/// c.add_function("f8", |a: i64, _b: u64, _c: f64, _d: bool, _e: Arc<String>, _f: Arc<Vec<u8>>, _g: Arc<Vec<Value>>, _h: Value| a);
/// c.add_function("f9", |a: i64, _b: u64, _c: f64, _d: bool, _e: Arc<String>, _f: Arc<Vec<u8>>, _g: Arc<Vec<Value>>, _h: Value, _i: i64| a);
/// c.add_function("g0", |_f: &FunctionContext| 0i64);
/// c.add_function("g9", |_f: &FunctionContext, a: i64, _b: u64, _c: f64, _d: bool, _e: Arc<String>, _f2: Arc<Vec<u8>>, _g: Arc<Vec<Value>>, _h: Value, _i: i64| a);
/// c.add_function("t", |This(t): This<Arc<String>>, _n: i64| t);
/// c.add_function("v", |Arguments(a): Arguments| a);
/// c.add_function("i", |Identifier(i): Identifier| i);
/// c.add_function("r", |a: i64| -> Result<Value, ExecutionError> { Ok(Value::Int(a)) });
/// c.add_function("d", |a: cel_interpreter::objects::Value| -> Result<Value, ExecutionError> { Ok(a) });
/// ```
pub struct C20AritiesPass;

/// ```compile_fail,E0277
/// use cel_interpreter::Context;
/// let mut c = Context::default();
/// c.add_function("f10", |a: i64, _b: i64, _c: i64, _d: i64, _e: i64, _f: i64, _g: i64, _h: i64, _i: i64, _j: i64| a);
/// ```
pub struct C20ArityTenFail;

/// ```compile_fail,E0277
/// use cel_interpreter::Context;
/// let mut c = Context::default();
/// c.add_function("bad", |a: std::net::IpAddr| a.is_ipv4());
/// ```
pub struct C20UnsupportedParamFail;

/// ```no_run
/// use cel_interpreter::Context;
/// let mut c = Context::default();
/// c.add_function("good", |a: i64| a > 0);
/// ```
pub struct C20UnsupportedParamPass;

/// A narrower integer is not silently accepted as a parameter type (no lossy
/// conversion of arguments "to its declared parameter types").
/// ```compile_fail,E0277
/// use cel_interpreter::Context;
/// let mut c = Context::default();
/// c.add_function("narrow", |a: i32| a as i64);
/// ```
pub struct C20NarrowIntParamFail;

/// An unsupported return type is rejected.
/// ```compile_fail,E0277
/// use cel_interpreter::Context;
/// let mut c = Context::default();
/// c.add_function("badret", |a: i64| std::net::Ipv4Addr::from(a as u32));
/// ```
pub struct C20UnsupportedReturnFail;
