"""Model of the tree-walking evaluator extracted from MIR: operator arms,
evaluation sites (who resolves which AST field), to_bool tests, lazy dispatch."""
from . import facts as F

EVALUATOR = 'cel_interpreter::objects::Value::resolve'
RESOLVE_FNS = {'cel_interpreter::objects::Value::resolve', 'cel_interpreter::objects::Value::resolve_all',
               'cel_interpreter::context::Context::resolve', 'cel_interpreter::context::Context::resolve_all',
               'cel_interpreter::functions::FunctionContext::resolve', 'cel_interpreter::resolvers::Resolver::resolve'}
STR_EQ = ('std::cmp::PartialEq::eq',)

OPERATORS = {  # value -> (name of the constant, arity)
    '_?_:_': ('CONDITIONAL', 3), '_&&_': ('LOGICAL_AND', 2), '_||_': ('LOGICAL_OR', 2), '!_': ('LOGICAL_NOT', 1),
    '_==_': ('EQUALS', 2), '_!=_': ('NOT_EQUALS', 2), '_<_': ('LESS', 2), '_<=_': ('LESS_EQUALS', 2),
    '_>_': ('GREATER', 2), '_>=_': ('GREATER_EQUALS', 2), '_+_': ('ADD', 2), '_-_': ('SUBSTRACT', 2),
    '_*_': ('MULTIPLY', 2), '_/_': ('DIVIDE', 2), '_%_': ('MODULO', 2), '-_': ('NEGATE', 1),
    '_[_]': ('INDEX', 2), '@in': ('IN', 2), '@not_strictly_false': ('NOT_STRICTLY_FALSE', 1),
}


def ast_path(term):
    """('args', k) / ('target',) / ('field', name...) access path below the Expr node being evaluated,
    or None when the term is not derived from the first parameter (the expression)."""
    path = []
    t = term
    while isinstance(t, tuple):
        if t[0] == 'param':
            return tuple(reversed(path)) if t[1] == 1 else None
        if t[0] == 'f':
            path.append(t[2])
            t = t[1]
        elif t[0] == 'dc':
            path.append('as ' + str(t[2]))
            t = t[1]
        elif t[0] == 'ix':
            path.append('[%s]' % (t[2],))
            t = t[1]
        elif t[0] == 'iter':
            path.append('[*]')
            t = t[1]
        else:
            return None
    return None


def short_path(p):
    """('expr','as Call','0','args','[1]') -> 'Call.args[1]'"""
    if p is None:
        return '?'
    out = []
    for x in p:
        x = str(x)
        if x in ('expr', '0'):
            continue
        if x.startswith('as '):
            out.append(x[3:])
        elif x.startswith('['):
            if out:
                out[-1] += x
            else:
                out.append(x)
        else:
            out.append(x)
    return '.'.join(out)


class EvalModel:
    def __init__(self, fx, evaluator=EVALUATOR, resolve_fns=RESOLVE_FNS):
        self.fx = fx
        self.b = fx.body(evaluator)
        self.pv = F.Prov(self.b)
        self.resolve_fns = resolve_fns
        self._sites = None
        self._arms = None

    # ---- evaluation sites in the evaluator body
    def sites(self):
        """list of dict(block, path, ctx_terms, callee) for each call that evaluates an expression"""
        if self._sites is None:
            out = []
            for bi, t in self.b.calls():
                n = F.norm_callee(t)
                if n in self.resolve_fns:
                    terms = self.pv.of_operand(t['args'][0])
                    paths = sorted({short_path(ast_path(x)) for x in terms})
                    ctxs = self.pv.of_operand(t['args'][1]) if len(t['args']) > 1 else set()
                    out.append({'block': bi, 'paths': paths, 'terms': terms, 'ctx': ctxs, 'callee': n,
                                'loc': F.loc_of(t['span']), 'term': t})
            self._sites = out
        return self._sites

    # ---- operator arms: const string compared with the function name
    def arms(self):
        """operator value -> dict(test_block, entry (true target), miss (false target))"""
        if self._arms is None:
            arms = {}
            b = self.b
            for bi, t in b.calls():
                if F.norm_callee(t) not in STR_EQ or len(t['args']) != 2:
                    continue
                consts = []
                for a in t['args']:
                    for term in self.pv.of_operand(a):
                        if term[0] == 'const' and isinstance(term[1], str):
                            consts.append(term[1])
                if len(consts) != 1 or consts[0] not in OPERATORS:
                    continue
                tgt = t['target']
                st = b.blocks[tgt]['term']
                if st['k'] != 'SwitchInt' or F.op_local(st['discr']) != t['dest']['l']:
                    continue
                false_t = [x[1] for x in st['arms'] if int(x[0]) == 0]
                false_t = false_t[0] if false_t else st['otherwise']
                true_t = st['otherwise'] if false_t != st['otherwise'] else [x[1] for x in st['arms'] if int(x[0]) != 0][0]
                arms[consts[0]] = {'test_block': bi, 'entry': true_t, 'miss': false_t, 'loc': F.loc_of(t['span'])}
            self._arms = arms
        return self._arms

    def arm_region(self, op):
        a = self.arms()[op]
        return self.b.reachable_from([a['entry']])

    def to_bool_sites(self):
        """calls of Value::to_bool with the provenance of the receiver"""
        out = []
        for bi, t in self.b.calls():
            if F.norm_callee(t) == 'cel_interpreter::objects::Value::to_bool':
                out.append({'block': bi, 'terms': self.pv.of_operand(t['args'][0]), 'dest': t['dest']['l'], 'target': t['target'],
                            'loc': F.loc_of(t['span'])})
        return out

    def dispatch_sites(self):
        """indirect calls through `Function = Box<dyn Fn(&mut FunctionContext)>` (lazy argument evaluation)"""
        out = []
        for bi, t in self.b.calls():
            n = F.norm_callee(t)
            if n in ('std::ops::Fn::call', 'std::ops::FnMut::call_mut', 'std::ops::FnOnce::call_once'):
                ty0 = t['arg_tys'][0]
                if 'dyn' in ty0 and 'FunctionContext' in ty0:
                    out.append({'block': bi, 'loc': F.loc_of(t['span'])})
        return out


def value_of_resolve(term, index=None):
    """term denotes the value produced by resolving call.args[index] (any index when None)"""
    if term[0] != 'call' or term[1] not in RESOLVE_FNS:
        return False
    p = short_path(ast_path(term[2][0])) if term[2] else '?'
    if index is None:
        return p.startswith('Call.args[')
    return p == 'Call.args[%d]' % index


# ---------------------------------------------------------------- SCCP under an assumption (analysis E)

def eval_under(b, local, assume, depth=0):
    """value (python bool/int) of a MIR local when the locals in `assume` have the given
    values; None = unknown.  Two-point constant lattice, no path conditions."""
    if local in assume:
        return assume[local]
    if depth > 12:
        return None
    defs = [d for d in b.defs().get(local, []) if d[1] != 'term' and not d[2]['place']['p']]
    calls = [d for d in b.defs().get(local, []) if d[1] == 'term']
    if calls or not defs:
        return None
    vals = set()
    for (_, _, s) in defs:
        vals.add(eval_rv(b, s['rv'], assume, depth + 1))
    if len(vals) == 1:
        return vals.pop()
    return None


def eval_op(b, o, assume, depth):
    if o['k'] == 'Const':
        return o.get('val')
    l = F.op_local(o)
    if l is None:
        return None
    return eval_under(b, l, assume, depth)


def eval_rv(b, rv, assume, depth):
    k = rv['k']
    if k == 'Use':
        return eval_op(b, rv['op'], assume, depth)
    if k == 'UnaryOp' and rv['op'] == 'Not':
        v = eval_op(b, rv['a'], assume, depth)
        return (not v) if isinstance(v, bool) else None
    if k == 'BinaryOp' and rv['op'] in ('Eq', 'Ne'):
        l = eval_op(b, rv['l'], assume, depth)
        r = eval_op(b, rv['r'], assume, depth)
        if l is None or r is None:
            return None
        return (l == r) if rv['op'] == 'Eq' else (l != r)
    return None


def reachable_under(b, start, assume):
    """blocks reachable from `start` when SwitchInt edges contradicting the assumption are pruned"""
    seen = set()
    stack = [start]
    while stack:
        x = stack.pop()
        if x in seen:
            continue
        seen.add(x)
        t = b.blocks[x]['term']
        if t['k'] == 'SwitchInt':
            l = F.op_local(t['discr'])
            v = eval_under(b, l, assume) if l is not None else None
            if v is not None:
                iv = int(v)
                tg = [a[1] for a in t['arms'] if int(a[0]) == iv]
                stack.append(tg[0] if tg else t['otherwise'])
                continue
        for s in b.succ(x):
            stack.append(s)
    return seen
