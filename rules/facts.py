"""Loader and shared analyses over the driver's fact files (pure stdlib)."""
import json, os, sys, re
from collections import defaultdict, deque

# ---------------------------------------------------------------- loading

class Facts:
    def __init__(self, dirpath):
        self.dir = dirpath
        self.crates = {}
        for fn in sorted(os.listdir(dirpath)):
            if fn.endswith('.json') and not fn.startswith('_'):
                with open(os.path.join(dirpath, fn)) as f:
                    d = json.load(f)
                if d.get('test'):
                    continue
                self.crates[d['crate']] = d
        self.bodies = {}
        self.children = defaultdict(list)   # parent path -> closure bodies
        for cn, c in self.crates.items():
            for b in c['bodies']:
                b['crate'] = cn
                self.bodies[b['path']] = Body(b, self)
            for b in c['bodies']:
                if 'parent' in b:
                    self.children[b['parent']].append(b['path'])
        self.hidden = {}
        self.inlined = {}                   # helper path -> list of callers it was inlined into
        self._inline_unknown_helpers()

    # ------------------------------------------------------------------ helper inlining
    # Rules are written against the functions of the reference tree (tables/reference/known_functions.json).  A function of
    # the repository crates that is not in that table is a helper introduced later (by a refactoring or by a change under
    # test).  Calls to such helpers are inlined into their callers (MIR splicing, depth <= 3, no recursion), so that
    # dominance, provenance and call-site rules see through them; a helper all of whose call sites were inlined is hidden
    # from whole-crate scans (its code is examined in every caller's context instead).
    def _inline_unknown_helpers(self):
        here = os.path.dirname(os.path.dirname(os.path.abspath(__file__)))
        tab = os.path.join(here, 'tables/reference/known_functions.json')
        if not os.path.exists(tab):
            return
        known = set(json.load(open(tab))['functions'])
        mine = {p for p, b in self.bodies.items() if b.crate in ('cel_parser', 'cel_interpreter')}
        unknown = {p for p in mine if self.bodies[p].raw['kind'] in ('Fn', 'AssocFn') and p not in known}
        if not unknown:
            return
        def callee_of(t):
            c = t.get('callee') or {}
            for k in ('res', 'path'):
                v = c.get(k)
                if v in unknown:
                    return v
            return None
        remaining_calls = defaultdict(int)
        for rnd in range(3):
            changed = False
            for p in sorted(mine):
                b = self.bodies[p]
                raw = b.raw
                for bi in range(len(raw['blocks'])):
                    t = raw['blocks'][bi]['term']
                    if t['k'] != 'Call':
                        continue
                    h = callee_of(t)
                    if h is None or h == p or self._calls_itself(h, unknown):
                        continue
                    hb = self.bodies[h].raw
                    if len(hb['blocks']) > 400 or len(t['args']) != hb['argc']:
                        continue
                    self._splice(raw, bi, hb)
                    self.inlined.setdefault(h, []).append(p)
                    for ch in self.children.get(h, []):
                        if ch not in self.children[p]:
                            self.children[p].append(ch)
                    changed = True
                if changed:
                    self.bodies[p] = Body(raw, self)
            if not changed:
                break
        # hide helpers that are no longer called anywhere (every call site was inlined)
        still = set()
        for p in mine:
            for blk in self.bodies[p].raw['blocks']:
                t = blk['term']
                if t['k'] == 'Call':
                    h = callee_of(t)
                    if h and p not in unknown:
                        still.add(h)
        refd = self._fn_constants(unknown)
        for h in sorted(unknown):
            if h in self.inlined and h not in still and h not in refd:
                self.hidden[h] = self.bodies.pop(h)

    def inline_view(self, path, depth=2):
        """a copy of body `path` with the direct calls to functions of the repository crates spliced in (known helpers too);
        for rules that ask what a function does 'including its private helpers'"""
        import copy
        raw = copy.deepcopy(self.body(path).raw)
        mine = {p for p, b in self.bodies.items() if b.crate in ('cel_parser', 'cel_interpreter') and b.raw['kind'] in ('Fn', 'AssocFn')} | set(self.hidden)
        done = {path}
        for _ in range(depth):
            changed = False
            for bi in range(len(raw['blocks'])):
                t = raw['blocks'][bi]['term']
                if t['k'] != 'Call':
                    continue
                c = t.get('callee') or {}
                h = next((c.get(k) for k in ('res', 'path') if c.get(k) in mine), None)
                if h is None or h in done:
                    continue
                hb = (self.bodies.get(h) or self.hidden.get(h)).raw
                if len(hb['blocks']) > 400 or len(t['args']) != hb['argc']:
                    continue
                self._splice(raw, bi, hb)
                changed = True
            if not changed:
                break
        return Body(raw, self)

    def _calls_itself(self, h, unknown, stack=()):
        if h in stack:
            return True
        for blk in self.bodies[h].raw['blocks']:
            t = blk['term']
            if t['k'] == 'Call':
                c = t.get('callee') or {}
                for k in ('res', 'path'):
                    v = c.get(k)
                    if v == h or (v in unknown and v != h and len(stack) < 4 and self._calls_itself(v, unknown, stack + (h,)) and v in stack + (h,)):
                        return True
        return False

    def _fn_constants(self, names):
        """helpers referenced as function values (passed to map(..) etc.): those cannot be inlined at the use site"""
        out = set()
        def scan(o):
            if isinstance(o, dict):
                f = o.get('fn')
                if isinstance(f, dict):
                    for k in ('res', 'path'):
                        if f.get(k) in names:
                            out.add(f[k])
                for v in o.values():
                    scan(v)
            elif isinstance(o, list):
                for v in o:
                    scan(v)
        for p, b in self.bodies.items():
            if b.crate in ('cel_parser', 'cel_interpreter'):
                scan(b.raw['blocks'])
        return out

    @staticmethod
    def _splice(raw, bi, hb):
        """replace the Call terminating block `bi` of `raw` by the body `hb` (locals and blocks renumbered)"""
        import copy
        lbase = len(raw['locals'])
        bbase = len(raw['blocks'])
        call = raw['blocks'][bi]['term']

        def rl(o):
            # renumber locals inside a copied callee fragment
            if isinstance(o, dict):
                if isinstance(o.get('l'), int) and isinstance(o.get('p'), list):
                    o['l'] += lbase
                elif o.get('k') == 'Index' and isinstance(o.get('l'), int):
                    o['l'] += lbase
                for k, v in o.items():
                    if k not in ('span', 'fn_span', 'callee', 'callee_ty', 'arg_tys'):
                        rl(v)
            elif isinstance(o, list):
                for v in o:
                    rl(v)

        for d in hb['locals']:
            nd = dict(d)
            nd['inlined_from'] = hb['path']
            raw['locals'].append(nd)
        span = call.get('span')
        pre = []
        for i, a in enumerate(call['args']):
            pre.append({'k': 'Assign', 'place': {'l': lbase + 1 + i, 'p': []}, 'rv': {'k': 'Use', 'op': a}, 'span': span})
        raw['blocks'][bi]['stmts'] = raw['blocks'][bi]['stmts'] + pre
        raw['blocks'][bi]['term'] = {'k': 'Goto', 'target': bbase}
        for blk in hb['blocks']:
            nb = copy.deepcopy(blk)
            rl(nb['stmts'])
            t = nb['term']
            rl(t)
            k = t['k']
            if k == 'Goto':
                t['target'] += bbase
            elif k == 'SwitchInt':
                t['arms'] = [[v, tg + bbase] for v, tg in t['arms']]
                t['otherwise'] += bbase
            elif k in ('Call', 'Drop', 'Assert'):
                if isinstance(t.get('target'), int):
                    t['target'] += bbase
                if isinstance(t.get('unwind'), int):
                    t['unwind'] += bbase
            elif k == 'Return':
                nb['stmts'] = nb['stmts'] + [{'k': 'Assign', 'place': copy.deepcopy(call['dest']), 'rv': {'k': 'Use', 'op': {'k': 'Move', 'place': {'l': lbase, 'p': []}}}, 'span': span}]
                nb['term'] = {'k': 'Goto', 'target': call['target']} if call.get('target') is not None else {'k': 'Unreachable'}
            raw['blocks'].append(nb)

    def crate(self, name):
        if name not in self.crates:
            raise Lost('fact file for crate %s missing' % name)
        return self.crates[name]

    def body(self, path):
        if path not in self.bodies:
            raise Lost('anchor lost: no body %s' % path)
        return self.bodies[path]

    def find_bodies(self, pred):
        return [b for b in self.bodies.values() if pred(b)]

    def bodies_with_closures(self, path):
        """body + transitively nested closures"""
        out = [self.body(path)]
        i = 0
        while i < len(out):
            for ch in self.children.get(out[i].path, []):
                out.append(self.bodies[ch])
            i += 1
        return out

    def adt(self, path):
        for c in self.crates.values():
            for a in c['adts']:
                if a['path'] == path:
                    return a
        raise Lost('anchor lost: no ADT %s' % path)

    def impls(self, trait=None, self_ty=None, crate=None):
        out = []
        for cn, c in self.crates.items():
            if crate and cn != crate:
                continue
            for i in c['impls']:
                if trait is not None and i.get('trait') != trait:
                    continue
                if self_ty is not None and i.get('self') != self_ty:
                    continue
                out.append(i)
        return out

    def features(self, crate):
        return set(self.crate(crate)['features'])


class Lost(Exception):
    """An anchor or fact is missing: the check fails closed."""


# ---------------------------------------------------------------- body model

def loc_of(span):
    if not span:
        return '?'
    s = span.get('site') or span.get('loc') or '?'
    # "antlr/src/parser.rs:12:3: 12:9" -> file:line
    m = re.match(r'^(.*?):(\d+):\d+', s)
    return '%s:%s' % (m.group(1), m.group(2)) if m else s


class Body:
    def __init__(self, raw, facts):
        self.raw = raw
        self.facts = facts
        self.path = raw['path']
        self.crate = raw['crate']
        self.blocks = raw['blocks']
        self.locals = raw['locals']
        self.argc = raw['argc']
        self.n = len(self.blocks)
        self._succ = None
        self._pred = None
        self._dom = None
        self._pdom = None
        self._defs = None

    # -- naming
    def lname(self, l):
        d = self.locals[l]
        return d.get('name') or ('_%d' % l)

    def file(self):
        return loc_of(self.raw.get('span')).rsplit(':', 1)[0]

    def is_derived(self):
        """body generated by a #[derive(..)] / attribute macro expansion"""
        sp = self.raw.get('span') or {}
        return bool(sp.get('exp')) and str(sp.get('macro', '')).startswith('#[')

    def loc(self):
        return loc_of(self.raw.get('span'))

    # -- CFG without unwind/cleanup edges
    def succ(self, b):
        if self._succ is None:
            self._succ = [self._succ_of(i) for i in range(self.n)]
        return self._succ[b]

    def _succ_of(self, i):
        t = self.blocks[i]['term']
        k = t['k']
        if k == 'Goto':
            return [t['target']]
        if k == 'SwitchInt':
            kv = self._known_switch(t)
            if kv is not None:
                tg = [a[1] for a in t['arms'] if int(a[0]) == kv]
                return [tg[0] if tg else t['otherwise']]
            out = [a[1] for a in t['arms']]
            out.append(t['otherwise'])
            seen = []
            for x in out:
                if x not in seen:
                    seen.append(x)
            return seen
        if k in ('Call',):
            return [t['target']] if t['target'] is not None else []
        if k in ('Drop', 'Assert'):
            return [t['target']]
        return []

    # -- infeasible-edge pruning: `Err(e)?` / `Ok(v)?` / matching a freshly built variant.
    # A SwitchInt on discriminant(L) where L's single definition is an enum aggregate of a
    # known variant (possibly through Try::branch, which maps Ok->Continue(0), Err->Break(1),
    # Some->Continue(0), None->Break(1)) has exactly one feasible target.
    def _single_def(self, l):
        ds = self.defs().get(l, [])
        if len(ds) != 1 or (1 <= l <= self.argc):
            return None
        return ds[0]

    def _known_variant(self, l, depth=0):
        """(adt, variant idx) if local l certainly holds that variant"""
        if depth > 6:
            return None
        d = self._single_def(l)
        if d is None:
            return None
        bi, j, x = d
        if j == 'term':
            c = x.get('callee') or {}
            if c.get('trait') == 'std::ops::Try' and c['path'].endswith('::branch') and x['args'] and not x['dest']['p']:
                a = x['args'][0]
                if a['k'] in ('Copy', 'Move') and not a['place']['p']:
                    kv = self._known_variant(a['place']['l'], depth + 1)
                    if kv and kv[0] in ('std::result::Result', 'std::option::Option'):
                        name = kv[2]
                        return ('std::ops::ControlFlow', 0 if name in ('Ok', 'Some') else 1, 'Continue' if name in ('Ok', 'Some') else 'Break')
            return None
        if x['place']['p']:
            return None
        rv = x['rv']
        if rv['k'] == 'Aggregate' and rv['agg'] == 'Adt':
            return (rv['adt'], rv['vidx'], rv['variant'])
        if rv['k'] == 'Use' and rv['op']['k'] in ('Copy', 'Move') and not rv['op']['place']['p']:
            return self._known_variant(rv['op']['place']['l'], depth + 1)
        return None

    def _known_switch(self, t):
        l = op_local(t['discr'])
        if l is None:
            return None
        d = self._single_def(l)
        if d is None or d[1] == 'term' or d[2]['place']['p']:
            return None
        rv = d[2]['rv']
        if rv['k'] != 'Discriminant' or rv['place']['p']:
            return None
        kv = self._known_variant(rv['place']['l'])
        if kv is None:
            return None
        # discriminant value == variant index for the fieldless-discriminant enums involved here
        if kv[0] in ('std::ops::ControlFlow', 'std::result::Result', 'std::option::Option'):
            return kv[1]
        return None

    def pred(self, b):
        if self._pred is None:
            self._pred = [[] for _ in range(self.n)]
            for i in range(self.n):
                if self.blocks[i]['cleanup']:
                    continue
                for s in self.succ(i):
                    self._pred[s].append(i)
        return self._pred[b]

    def reachable_from(self, starts, blocked=(), edge_filter=None):
        """blocks reachable from `starts` (inclusive), never entering `blocked`.
        edge_filter(src,dst)->bool may remove edges."""
        seen = set()
        dq = deque(s for s in starts if s not in blocked)
        while dq:
            b = dq.popleft()
            if b in seen:
                continue
            seen.add(b)
            for s in self.succ(b):
                if s in blocked or s in seen:
                    continue
                if edge_filter and not edge_filter(b, s):
                    continue
                dq.append(s)
        return seen

    def live_blocks(self):
        return self.reachable_from([0])

    # -- dominators (iterative, small graphs)
    def dominators(self):
        if self._dom is None:
            self._dom = _dominators(self.n, 0, self.succ, self.pred, self.live_blocks())
        return self._dom

    def dominates(self, a, b):
        """block a dominates block b"""
        return a in self.dominators().get(b, ())

    def postdominators(self):
        if self._pdom is None:
            live = self.live_blocks()
            exits = [b for b in live if not self.succ(b)]
            # virtual exit = n
            n = self.n
            def psucc(b):
                if b == n:
                    return exits
                return self.pred(b)
            def ppred(b):
                if b == n:
                    return []
                r = list(self.succ(b))
                if b in exits:
                    r.append(n)
                return r
            self._pdom = _dominators(n + 1, n, psucc, ppred, live | {n})
        return self._pdom

    # -- iteration helpers
    def calls(self, live_only=True):
        live = self.live_blocks() if live_only else range(self.n)
        for i in sorted(live):
            t = self.blocks[i]['term']
            if t['k'] == 'Call':
                yield i, t

    def terms(self, kind):
        for i in sorted(self.live_blocks()):
            t = self.blocks[i]['term']
            if t['k'] == kind:
                yield i, t

    def stmts(self):
        for i in sorted(self.live_blocks()):
            for j, s in enumerate(self.blocks[i]['stmts']):
                yield i, j, s

    # -- definitions of locals: local -> list of (block, idx|'term', kind, payload)
    def defs(self):
        if self._defs is None:
            d = defaultdict(list)
            for i in range(self.n):
                blk = self.blocks[i]
                if blk['cleanup']:
                    continue
                for j, s in enumerate(blk['stmts']):
                    if s['k'] == 'Assign':
                        d[s['place']['l']].append((i, j, s))
                t = blk['term']
                if t['k'] == 'Call':
                    d[t['dest']['l']].append((i, 'term', t))
            self._defs = d
        return self._defs

    # -- pretty printer (for development and for violation reports)
    def pp_place(self, p):
        s = self.lname(p['l'])
        if s != '_%d' % p['l']:
            s = '%s(_%d)' % (s, p['l'])
        for e in p['p']:
            k = e['k']
            if k == 'Deref':
                s = '(*%s)' % s
            elif k == 'Field':
                s = '%s.%s' % (s, e.get('name', e['i']))
            elif k == 'Downcast':
                s = '(%s as %s)' % (s, e['name'])
            elif k == 'Index':
                s = '%s[_%d]' % (s, e['l'])
            elif k == 'ConstantIndex':
                s = '%s[%s%d]' % (s, '-' if e['from_end'] else '', e['off'])
            else:
                s = '%s.{%s}' % (s, k)
        return s

    def pp_op(self, o):
        k = o['k']
        if k in ('Copy', 'Move'):
            return ('move ' if k == 'Move' else '') + self.pp_place(o['place'])
        if k == 'Const':
            if 'val' in o:
                return 'const %r' % (o['val'],)
            if 'def' in o:
                return 'const ' + o['def']
            return 'const ' + o.get('text', '?')[:80]
        return o.get('text', '?')

    def pp_rv(self, rv):
        k = rv['k']
        if k == 'Use':
            return self.pp_op(rv['op'])
        if k == 'Ref':
            return ('&mut ' if rv['mut'] else '&') + self.pp_place(rv['place'])
        if k == 'RawPtr':
            return '&raw ' + self.pp_place(rv['place'])
        if k == 'Cast':
            return '%s as %s (%s from %s)' % (self.pp_op(rv['op']), rv['to'], rv['kind'], rv['from'])
        if k == 'BinaryOp':
            return '%s(%s, %s) [%s]' % (rv['op'], self.pp_op(rv['l']), self.pp_op(rv['r']), rv['lty'])
        if k == 'UnaryOp':
            return '%s(%s) [%s]' % (rv['op'], self.pp_op(rv['a']), rv['aty'])
        if k == 'Discriminant':
            return 'discriminant(%s)' % self.pp_place(rv['place'])
        if k == 'Aggregate':
            ops = ', '.join(self.pp_op(o) for o in rv['ops'])
            a = rv['agg']
            if a == 'Adt':
                return '%s::%s { %s }' % (rv['adt'], rv['variant'], ops)
            if a == 'Closure':
                return 'closure %s [%s]' % (rv['closure'], ops)
            return '%s[%s]' % (a, ops)
        if k == 'CopyForDeref':
            return 'deref_copy ' + self.pp_place(rv['place'])
        return rv.get('text', k)

    def pp_callee(self, t):
        c = t.get('callee')
        if not c:
            return '(%s)' % t.get('callee_ty', '?')
        return c.get('res') or c['path']

    def pp(self, out=sys.stdout, blocks=None):
        out.write('fn %s  [%s]  argc=%d\n' % (self.path, self.loc(), self.argc))
        if os.environ.get('PP_LOCALS'):
            for i, d in enumerate(self.locals):
                out.write('  let _%d: %s%s\n' % (i, d['ty'], (' // ' + d['name']) if 'name' in d else ''))
        live = self.live_blocks()
        for i in range(self.n):
            if blocks is not None and i not in blocks:
                continue
            blk = self.blocks[i]
            if blk['cleanup'] or i not in live:
                continue
            out.write(' bb%d:\n' % i)
            for s in blk['stmts']:
                if s['k'] == 'Assign':
                    out.write('    %s = %s\n' % (self.pp_place(s['place']), self.pp_rv(s['rv'])))
                else:
                    out.write('    %s\n' % s['k'])
            t = blk['term']
            k = t['k']
            if k == 'Call':
                out.write('    %s = %s(%s) -> %s   @%s\n' % (
                    self.pp_place(t['dest']), self.pp_callee(t),
                    ', '.join(self.pp_op(a) for a in t['args']),
                    'bb%s' % t['target'] if t['target'] is not None else '!', loc_of(t['span'])))
            elif k == 'SwitchInt':
                out.write('    switch %s [%s] {%s, else: bb%d}\n' % (
                    self.pp_op(t['discr']), t['dty'],
                    ', '.join('%s: bb%d' % (a[0], a[1]) for a in t['arms']), t['otherwise']))
            elif k == 'Assert':
                out.write('    assert %s(%s) == %s -> bb%d   @%s\n' % (
                    t['msg'], ', '.join(self.pp_op(o) for o in t['ops']), t['expected'], t['target'], loc_of(t['span'])))
            elif k == 'Drop':
                out.write('    drop(%s) -> bb%d\n' % (self.pp_place(t['place']), t['target']))
            elif k == 'Goto':
                out.write('    goto bb%d\n' % t['target'])
            else:
                out.write('    %s\n' % k)


def _dominators(n, entry, succ, pred, live):
    """returns dict block -> set of dominators (inclusive)"""
    order = []
    seen = set()
    stack = [(entry, iter(succ(entry)))]
    seen.add(entry)
    while stack:
        b, it = stack[-1]
        adv = False
        for s in it:
            if s in live and s not in seen:
                seen.add(s)
                stack.append((s, iter(succ(s))))
                adv = True
                break
        if not adv:
            order.append(b)
            stack.pop()
    rpo = list(reversed(order))
    idx = {b: i for i, b in enumerate(rpo)}
    idom = {entry: entry}
    changed = True
    def intersect(a, b):
        while a != b:
            while idx[a] > idx[b]:
                a = idom[a]
            while idx[b] > idx[a]:
                b = idom[b]
        return a
    while changed:
        changed = False
        for b in rpo:
            if b == entry:
                continue
            ps = [p for p in pred(b) if p in idom and p in idx]
            if not ps:
                continue
            new = ps[0]
            for p in ps[1:]:
                new = intersect(p, new)
            if idom.get(b) != new:
                idom[b] = new
                changed = True
    dom = {}
    for b in rpo:
        s = {b}
        x = b
        while x != entry and x in idom:
            x = idom[x]
            s.add(x)
        dom[b] = s
    return dom


# ---------------------------------------------------------------- callee helpers

def callee_path(t):
    """resolved path if resolution succeeded, else the declared path"""
    c = t.get('callee')
    if not c:
        return None
    return c.get('res') or c['path']

def callee_decl(t):
    c = t.get('callee')
    return c['path'] if c else None

def callee_is(t, *names):
    c = t.get('callee')
    if not c:
        return False
    return c.get('res') in names or c['path'] in names

def strip_generics(p):
    """'core::option::Option::<T>::ok_or::<E>' -> 'core::option::Option::ok_or'"""
    out = []
    depth = 0
    i = 0
    while i < len(p):
        ch = p[i]
        if ch == '<':
            # "::<" generic args, or "<T as Trait>" qualified path at depth 0 start
            depth += 1
        elif ch == '>':
            depth -= 1
        elif depth == 0:
            out.append(ch)
        i += 1
    s = ''.join(out)
    while '::::' in s:
        s = s.replace('::::', '::')
    return s.rstrip(':')

def op_const(o):
    """constant value of an operand or None"""
    if o['k'] == 'Const' and 'val' in o:
        return o['val']
    return None

def op_local(o):
    """the bare local an operand reads, if it has no projection"""
    if o['k'] in ('Copy', 'Move') and not o['place']['p']:
        return o['place']['l']
    return None


# ---------------------------------------------------------------- provenance (analysis C)

TRANSPARENT = {
    # callee (generics stripped) -> index of the argument whose value passes through.
    # Each entry: the result denotes the same datum (or a view/owned copy of it).
    'std::ops::Deref::deref': 0, 'std::ops::DerefMut::deref_mut': 0,
    'std::clone::Clone::clone': 0, 'std::borrow::ToOwned::to_owned': 0,
    'std::convert::AsRef::as_ref': 0, 'std::convert::AsMut::as_mut': 0,
    'std::borrow::Borrow::borrow': 0, 'std::borrow::BorrowMut::borrow_mut': 0,
    'std::convert::Into::into': 0, 'std::convert::From::from': 0,
    'std::ops::Try::branch': 0, 'std::ops::FromResidual::from_residual': 0,
    'std::iter::IntoIterator::into_iter': 0,
    'core::slice::<impl [T]>::iter': 0, 'std::vec::Vec::as_slice': 0,
    'std::string::String::as_str': 0, 'std::option::Option::as_ref': 0,
    'std::option::Option::as_deref': 0, 'std::option::Option::as_mut': 0,
    'std::result::Result::as_ref': 0,
    'std::boxed::Box::new': 0, 'std::sync::Arc::new': 0, 'std::rc::Rc::new': 0,
    'std::boxed::Box::assume_init': 0, 'core::slice::<impl [T]>::into_vec': 0,
    'std::boxed::Box::<[T]>::into_vec': 0, 'std::boxed::box_assume_init_into_vec_unsafe': 0,
    'std::mem::MaybeUninit::as_mut_ptr': 0, 'std::boxed::Box::as_mut_ptr': 0,
    'std::option::Option::cloned': 0, 'std::option::Option::copied': 0,
    'std::iter::Iterator::cloned': 0, 'std::iter::Iterator::copied': 0,
    'std::string::ToString::to_string': 0,
    'std::option::Option::unwrap': 0, 'std::option::Option::expect': 0,
    'std::result::Result::unwrap': 0, 'std::result::Result::expect': 0,
    'std::option::Option::ok_or': 0, 'std::option::Option::ok_or_else': 0,
    'std::result::Result::map_err': 0, 'std::result::Result::ok': 0,
}
PAYLOAD_VARIANTS = ('Some', 'Ok', 'Continue')
BOX_INTERNALS = ('std::boxed::Box', 'std::ptr::Unique', 'std::ptr::NonNull')


_CORE_VIA_LOCAL = re.compile(r'(^|<impl |[ (<&])\w+::core::')

def norm_path(p):
    """generic-free def path.  `::<..>` argument lists are dropped, `<impl T>` segments are kept
    (with T generic-free), and `somecrate::core::` (core reached through a local
    `extern crate core`) is printed as `core::`."""
    out = []
    i = 0
    n = len(p)
    while i < n:
        if p.startswith('::<', i) and not p.startswith('::<impl ', i):
            depth = 0
            j = i + 2
            while j < n:
                if p[j] == '<':
                    depth += 1
                elif p[j] == '>' and p[j - 1] != '-':
                    depth -= 1
                    if depth == 0:
                        break
                j += 1
            i = j + 1
            continue
        if p[i] == '<' and not p.startswith('<impl ', i) and i > 0 and (p[i - 1].isalnum() or p[i - 1] == '_'):
            # Type<Args> inside an impl header
            depth = 0
            j = i
            while j < n:
                if p[j] == '<':
                    depth += 1
                elif p[j] == '>' and p[j - 1] != '-':
                    depth -= 1
                    if depth == 0:
                        break
                j += 1
            i = j + 1
            continue
        out.append(p[i])
        i += 1
    s = ''.join(out)
    s = _CORE_VIA_LOCAL.sub(lambda m: m.group(1) + 'core::', s)
    return s


def norm_callee(t):
    """generic-free callee name; trait methods by their trait path ('std::ops::Deref::deref'),
    inherent/free functions by their resolved def path"""
    c = t.get('callee')
    if not c:
        return None
    if 'trait' in c:
        return '%s::%s' % (c['trait'], norm_path(c['path']).rsplit('::', 1)[-1])
    return norm_path(c.get('res') or c['path'])


def resolved_callee(t):
    """generic-free *resolved* callee (impl method for trait calls when resolution succeeded)"""
    c = t.get('callee')
    if not c:
        return None
    return norm_path(c.get('res') or c['path'])


_VARIANT_FAMILY = ('Ok', 'Err', 'Some', 'None', 'Continue', 'Break')
_VARIANT_COMPAT = {'Ok': ('Ok',), 'Err': ('Err',), 'Some': ('Some',), 'None': ('None',), 'Continue': ('Continue', 'Ok', 'Some'), 'Break': ('Break', 'Err', 'None')}


class Prov:
    """Access-path provenance of MIR locals inside one body.

    Terms (tuples):
      ('param', i) | ('const', value-or-def) | ('f', base, field) | ('dc', base, variant)
      ('ix', base, k|'?') | ('iter', base) | ('call', callee, (args...), block)
      ('agg', name, (ops...)) | ('binop', op, a, b) | ('unop', op, a) | ('cast', kind, a)
      ('discr', base) | ('stored', value) | ('top',)
    References/dereferences are transparent; TRANSPARENT calls pass their argument through;
    the payload of Some/Ok/Continue is identified with its container.
    """
    def __init__(self, body, transparent=None, depth=14, cap=48):
        self.b = body
        self.tr = TRANSPARENT if transparent is None else transparent
        self.depth = depth
        self.cap = cap
        self.memo = {}
        self._stores = None

    # -- stores through pointers: (*p).. = rv  makes rv part of every local p was derived from
    def stores(self):
        if self._stores is None:
            st = defaultdict(list)
            for i, j, s in self.b.stmts():
                if s['k'] != 'Assign':
                    continue
                pl = s['place']
                if any(e['k'] == 'Deref' for e in pl['p']):
                    for root in self.alias_roots(pl['l']):
                        st[root].append(s['rv'])
            self._stores = st
        return self._stores

    def alias_roots(self, l, seen=None):
        """locals that `l` was derived from through copies, refs, casts and transparent calls"""
        seen = seen if seen is not None else set()
        if l in seen:
            return seen
        seen.add(l)
        for (bi, j, d) in self.b.defs().get(l, []):
            if j == 'term':
                n = norm_callee(d)
                if n in self.tr and d['args']:
                    a = d['args'][self.tr[n]]
                    if a['k'] in ('Copy', 'Move'):
                        self.alias_roots(a['place']['l'], seen)
            else:
                rv = d['rv']
                if d['place']['p']:
                    continue
                if rv['k'] in ('Use', 'Cast'):
                    a = rv['op']
                    if a['k'] in ('Copy', 'Move'):
                        self.alias_roots(a['place']['l'], seen)
                elif rv['k'] in ('Ref', 'RawPtr', 'CopyForDeref'):
                    self.alias_roots(rv['place']['l'], seen)
        return seen

    # -- terms
    def of_local(self, l, depth=None, stack=()):
        depth = self.depth if depth is None else depth
        key = (l, depth)
        if key in self.memo:
            return self.memo[key]
        if l in stack or depth <= 0 or len(stack) > 200:
            return {('top',)}
        out = set()
        if 1 <= l <= self.b.argc:
            out.add(('param', l))
        stack = stack + (l,)
        for (bi, j, d) in self.b.defs().get(l, []):
            if j == 'term':
                if d['dest']['p']:
                    continue
                out |= self.of_call(d, bi, depth, stack)
            else:
                if d['place']['p']:
                    # partial write (field init of an aggregate built in place)
                    continue
                out |= self.of_rvalue(d['rv'], depth, stack)
        for rv in self.stores().get(l, []):
            for t in self.of_rvalue(rv, depth - 1, stack):
                out.add(('stored', t))
        if len(out) > self.cap:
            out = set(sorted(out, key=repr)[:self.cap]) | {('top',)}
        if not out:
            out = {('undef', l)}
        if not any(term_contains(t, lambda x: x == ('top',)) for t in out):
            self.memo[key] = out
        return out

    def per_def(self, l):
        """term sets of each definition of local l separately (no cap across definitions)"""
        for (bi, j, d) in self.b.defs().get(l, []):
            if j == 'term':
                if not d['dest']['p']:
                    yield bi, self.of_call(d, bi, self.depth, (l,))
            elif not d['place']['p']:
                yield bi, self.of_rvalue(d['rv'], self.depth, (l,))

    def of_place(self, pl, depth=None, stack=()):
        depth = self.depth if depth is None else depth
        bases = self.of_local(pl['l'], depth, stack)
        for e in pl['p']:
            k = e['k']
            if k == 'Deref':
                continue
            nb = set()
            pruned = []
            for b in bases:
                if k == 'Field':
                    if e.get('adt') in BOX_INTERNALS:
                        nb.add(b)
                    elif b[0] == 'dc' and b[2] in PAYLOAD_VARIANTS and e['i'] == 0:
                        nb.add(b[1])
                    elif b[0] == 'agg' and e['i'] < len(b[2]) and not e.get('upvar'):
                        nb.add(b[2][e['i']])
                    else:
                        nb.add(('f', b, e.get('name', e['i'])))
                elif k == 'Downcast':
                    # an alternative that is a freshly built *other* variant cannot be seen through this downcast
                    # (`(x as Continue).0` after `?` never is the Err(..)/None a spliced helper also returns)
                    if b[0] == 'agg' and isinstance(b[1], str):
                        have = b[1].rsplit('::', 1)[-1]
                        if have in _VARIANT_FAMILY and e['name'] in _VARIANT_FAMILY and have not in _VARIANT_COMPAT[e['name']]:
                            pruned.append(b)
                            continue
                    nb.add(('dc', b, e['name']))
                elif k == 'Index':
                    nb.add(('ix', b, '?'))
                elif k == 'ConstantIndex':
                    nb.add(('ix', b, e['off'] if not e['from_end'] else -e['off']))
                else:
                    nb.add(('proj', b, k))
            if not nb and pruned:
                nb = {('dc', b, e['name']) for b in pruned}       # nothing feasible left: keep what there was (fail closed downstream)
            bases = nb
        return bases

    def of_operand(self, o, depth=None, stack=()):
        depth = self.depth if depth is None else depth
        if o['k'] in ('Copy', 'Move'):
            return self.of_place(o['place'], depth, stack)
        if o['k'] == 'Const':
            return {('const', self.const_key(o))}
        return {('top',)}

    def const_key(self, o):
        if 'promoted' in o:
            pb = self.b.facts.bodies.get('%s::promoted[%d]' % (o['def'], o['promoted']))
            if pb is not None:
                ts = Prov(pb, self.tr).of_local(0)
                if len(ts) == 1:
                    t = next(iter(ts))
                    if t[0] == 'const':
                        return t[1]
                    return ('promoted', t)
        if 'val' in o:
            return o['val']
        if 'fn' in o:
            return ('fn', norm_path(o['fn'].get('res') or o['fn']['path']))
        if 'closure' in o:
            return ('closure', o['closure'])
        if 'def' in o:
            return ('def', o['def'])
        return ('text', o.get('text', '?'))

    def of_rvalue(self, rv, depth, stack):
        k = rv['k']
        if k == 'Use':
            return self.of_operand(rv['op'], depth, stack)
        if k in ('Ref', 'RawPtr', 'CopyForDeref'):
            return self.of_place(rv['place'], depth, stack)
        if k == 'Cast':
            inner = self.of_operand(rv['op'], depth, stack)
            if rv['kind'].startswith('PointerCoercion') or rv['kind'] in ('PtrToPtr', 'Transmute'):
                return inner
            return {('cast', '%s:%s->%s' % (rv['kind'], rv['from'], rv['to']), t) for t in inner}
        if k == 'BinaryOp':
            depth -= 1
            ls = self.of_operand(rv['l'], depth, stack)
            rs = self.of_operand(rv['r'], depth, stack)
            return {('binop', rv['op'], a, b) for a in list(ls)[:6] for b in list(rs)[:6]}
        if k == 'UnaryOp':
            if rv['op'] == 'PtrMetadata':
                return {('len', t) for t in self.of_operand(rv['a'], depth, stack)}
            return {('unop', rv['op'], t) for t in self.of_operand(rv['a'], depth, stack)}
        if k == 'Discriminant':
            return {('discr', t) for t in self.of_place(rv['place'], depth, stack)}
        if k == 'Aggregate':
            depth -= 1
            if rv['agg'] == 'Adt':
                name = '%s::%s' % (rv['adt'], rv['variant'])
            elif rv['agg'] == 'Closure':
                name = 'closure:' + rv['closure']
            else:
                name = rv['agg']
            opsets = [list(self.of_operand(o, depth, stack))[:4] for o in rv['ops']]
            combos = [()]
            for osx in opsets:
                combos = [c + (x,) for c in combos for x in osx][:16]
            return {('agg', name, c) for c in combos}
        return {('top',)}

    def of_call(self, t, bi, depth, stack):
        n = norm_callee(t)
        args = t['args']
        if n in self.tr and args:
            return self.of_operand(args[self.tr[n]], depth, stack)
        if n == 'std::ops::Index::index' or n == 'std::ops::IndexMut::index_mut':
            base = self.of_operand(args[0], depth, stack)
            kk = op_const(args[1])
            if kk is None:
                ks = self.of_operand(args[1], depth, stack)
                kc = [x[1] for x in ks if x[0] == 'const' and isinstance(x[1], int)]
                kk = kc[0] if len(ks) == 1 and kc else '?'
            return {('ix', b, kk) for b in base}
        if n == 'std::iter::Iterator::next':
            return {('iter', b) for b in self.of_operand(args[0], depth, stack)}
        depth -= 1
        if n is None:
            # indirect call through a fn pointer / dyn Fn value
            fs = self.of_operand(t['func'], depth, stack) if 'func' in t else {('top',)}
            n = ('indirect', tuple(sorted(fs, key=repr))[:1])
        argsets = [list(self.of_operand(a, depth, stack))[:3] for a in args]
        combos = [()]
        for osx in argsets:
            combos = [c + (x,) for c in combos for x in osx][:12]
        return {('call', n, c, bi) for c in combos}


def term_contains(t, pred):
    """does any subterm satisfy pred?"""
    if isinstance(t, tuple) and t and isinstance(t[0], str) and pred(t):
        return True
    if isinstance(t, tuple):
        for x in (t[1:] if t and isinstance(t[0], str) else t):
            if isinstance(x, tuple) and term_contains(x, pred):
                return True
    return False


def term_str(t):
    if not isinstance(t, tuple):
        return repr(t)
    k = t[0]
    if k == 'param':
        return 'arg%d' % t[1]
    if k == 'const':
        return 'const(%s)' % (term_str(t[1]) if isinstance(t[1], tuple) else repr(t[1]))
    if k == 'f':
        return '%s.%s' % (term_str(t[1]), t[2])
    if k == 'dc':
        return '(%s as %s)' % (term_str(t[1]), t[2])
    if k == 'ix':
        return '%s[%s]' % (term_str(t[1]), t[2])
    if k == 'iter':
        return 'item(%s)' % term_str(t[1])
    if k == 'call':
        n = t[1] if isinstance(t[1], str) else 'indirect'
        return '%s(%s)' % (n.split('::')[-1] if isinstance(n, str) else n, ', '.join(term_str(a) for a in t[2]))
    if k == 'agg':
        return '%s{%s}' % (t[1].split('::')[-1], ', '.join(term_str(a) for a in t[2]))
    if k in ('binop',):
        return '%s(%s, %s)' % (t[1], term_str(t[2]), term_str(t[3]))
    if k in ('unop', 'cast'):
        return '%s(%s)' % (t[1], term_str(t[2]))
    if k in ('discr', 'stored', 'len'):
        return '%s(%s)' % (k, term_str(t[1]))
    return str(t)


if __name__ == '__main__':
    f = Facts(sys.argv[1])
    pat = sys.argv[2]
    for p, b in sorted(f.bodies.items()):
        if re.search(pat, p):
            b.pp()
            if os.environ.get('PP_PROV'):
                pv = Prov(b)
                for i, t in b.calls():
                    print('  bb%d %s' % (i, norm_callee(t)))
                    for a in t['args']:
                        print('      ', ' | '.join(sorted(term_str(x) for x in pv.of_operand(a)))[:300])
