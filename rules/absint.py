"""A small abstract interpreter over loop-free MIR bodies (analysis G: constant-tree propagation).

Abstract values are finite trees; `Vec` locals hold finite sequences updated by
vec![..], push, insert(const,.), remove(const), pop.  Every path of the body is
followed (bodies must be acyclic, otherwise the analysis fails closed); switches
on known constants / known variants are resolved, others fork.  Any operation
that is not modelled yields ('unknown', what) and the rule that consumes the
result fails closed.  No solver, no path conditions: this is forward constant
propagation with structured constants."""
from . import facts as F

MAX_PATHS = 64


class Unmodelled(Exception):
    pass


def is_unknown(v):
    if isinstance(v, tuple):
        if v and v[0] == 'unknown':
            return True
        return any(is_unknown(x) for x in v[1:] if isinstance(x, (tuple, list, dict)))
    if isinstance(v, list):
        return any(is_unknown(x) for x in v)
    if isinstance(v, dict):
        return any(is_unknown(x) for x in v.values())
    return False


class Interp:
    def __init__(self, body, models=None):
        self.b = body
        self.models = models or {}
        self.facts = body.facts
        for i in body.live_blocks():
            if i in body.reachable_from(body.succ(i)):
                # loops are tolerated only inside panic/cleanup-free regions we never enter; checked lazily
                pass

    # ---- places
    def read_place(self, env, pl):
        v = env.get(pl['l'], ('unknown', 'uninit _%d' % pl['l']))
        for e in pl['p']:
            v = self.project(env, v, e)
        return v

    def project(self, env, v, e):
        k = e['k']
        if k == 'Deref':
            if isinstance(v, tuple) and v[0] in ('ref', 'ptr'):
                return env.get(v[1], ('unknown', 'deref'))
            return v
        if k == 'Downcast':
            return v
        if k == 'Field':
            if e.get('adt') in F.BOX_INTERNALS or e.get('adt', '').startswith('std::mem::'):
                return v
            if isinstance(v, tuple):
                if v[0] == 'adt':
                    fields = v[3]
                    nm = e.get('name', str(e['i']))
                    if nm in fields:
                        return fields[nm]
                    return ('unknown', 'field %s of %s' % (nm, v[1]))
                if v[0] in ('some', 'continue', 'break', 'ok', 'err') and e['i'] == 0:
                    return v[1]
                if v[0] == 'tuple':
                    return v[1][e['i']]
                if v[0] == 'ided':
                    nm = e.get('name')
                    if nm == 'expr':
                        return v[1]
                    return ('const', 0)
            return ('unknown', 'field of %r' % (v[:1],))
        return ('unknown', 'proj ' + k)

    def operand(self, env, o):
        if o['k'] in ('Copy', 'Move'):
            pl = o['place']
            base = env.get(pl['l'])
            if pl['p'] and isinstance(base, tuple) and base[0] == 'boxed' and all(e['k'] == 'Field' and e.get('adt') in F.BOX_INTERNALS for e in pl['p']):
                return ('ptr', pl['l'])      # the raw pointer inside a Box: a pointer to the box's content
            return self.read_place(env, pl)
        if o['k'] == 'Const':
            if 'promoted' in o:
                pb = self.facts.bodies.get('%s::promoted[%d]' % (o['def'], o['promoted']))
                if pb is not None:
                    sub = Interp(pb, self.models)
                    res = sub.run({})
                    if len(res) == 1:
                        v = res[0][1]
                        if isinstance(v, tuple) and v[0] in ('ref', 'ptr'):
                            v = ('refval', res[0][2].get(v[1], ('unknown', 'promoted referent')))
                        return v
                return ('unknown', 'promoted')
            if 'val' in o:
                return ('const', o['val'])
            if 'fn' in o:
                return ('fn', F.norm_path(o['fn'].get('res') or o['fn']['path']))
            if o.get('ty') == '()':
                return ('const', ())
            return ('unknown', 'const ' + o.get('text', '?')[:40])
        return ('unknown', 'operand')

    def rvalue(self, env, rv):
        k = rv['k']
        if k == 'Use':
            return self.operand(env, rv['op'])
        if k in ('Ref', 'RawPtr'):
            pl = rv['place']
            if not pl['p']:
                return ('ref', pl['l'])
            # reborrow &(*x) / &mut (*x)
            if len(pl['p']) == 1 and pl['p'][0]['k'] == 'Deref':
                v = env.get(pl['l'])
                if isinstance(v, tuple) and v[0] in ('ref', 'ptr'):
                    return v
                return ('refval', v)
            return ('refval', self.read_place(env, pl))
        if k == 'CopyForDeref':
            return self.read_place(env, rv['place'])
        if k == 'Cast':
            v = self.operand(env, rv['op'])
            return v
        if k == 'Aggregate':
            ops = [self.operand(env, o) for o in rv['ops']]
            if rv['agg'] == 'Adt':
                if rv['adt'] == 'std::option::Option':
                    return ('none',) if rv['variant'] == 'None' else ('some', ops[0])
                if rv['adt'] == 'std::result::Result':
                    return ('ok' if rv['variant'] == 'Ok' else 'err', ops[0])
                return ('adt', rv['adt'], rv['variant'], dict(zip(rv['fields'], ops)))
            if rv['agg'] == 'Tuple':
                return ('tuple', ops)
            if rv['agg'] == 'Array':
                return ('array', ops)
            return ('unknown', 'aggregate ' + rv['agg'])
        if k == 'BinaryOp':
            l, r = self.operand(env, rv['l']), self.operand(env, rv['r'])
            if l[0] == 'const' and r[0] == 'const':
                op = rv['op']
                try:
                    if op == 'Eq': return ('const', l[1] == r[1])
                    if op == 'Ne': return ('const', l[1] != r[1])
                    if op == 'Lt': return ('const', l[1] < r[1])
                    if op == 'Le': return ('const', l[1] <= r[1])
                    if op == 'Gt': return ('const', l[1] > r[1])
                    if op == 'Ge': return ('const', l[1] >= r[1])
                    if op in ('Mul', 'Add', 'Sub') and isinstance(l[1], int) and isinstance(r[1], int):
                        return ('const', {'Mul': l[1] * r[1], 'Add': l[1] + r[1], 'Sub': l[1] - r[1]}[op])
                    if op in ('MulWithOverflow', 'AddWithOverflow', 'SubWithOverflow') and isinstance(l[1], int) and isinstance(r[1], int):
                        v = {'M': l[1] * r[1], 'A': l[1] + r[1], 'S': l[1] - r[1]}[op[0]]
                        return ('tuple', [('const', v), ('const', False)])
                    if op in ('BitOr',): return ('const', l[1] | r[1])
                    if op in ('BitAnd',): return ('const', l[1] & r[1])
                except TypeError:
                    pass
            return ('unknown', 'binop %s' % rv['op'])
        if k == 'UnaryOp':
            a = self.operand(env, rv['a'])
            if rv['op'] == 'Not' and a[0] == 'const' and isinstance(a[1], bool):
                return ('const', not a[1])
            return ('unknown', 'unop')
        if k == 'Discriminant':
            v = self.read_place(env, rv['place'])
            d = self.discr(v)
            return ('const', d) if d is not None else ('unknown', 'discriminant of %r' % (v[:2],))
        return ('unknown', 'rvalue ' + k)

    def discr(self, v):
        if not isinstance(v, tuple):
            return None
        if v[0] == 'refval':
            return self.discr(v[1])
        if v[0] == 'none': return 0
        if v[0] == 'some': return 1
        if v[0] in ('ok', 'continue'): return 0
        if v[0] in ('err', 'break'): return 1
        if v[0] == 'adt':
            try:
                a = self.facts.adt(v[1])
            except F.Lost:
                return None
            for var in a['variants']:
                if var['name'] == v[2]:
                    return var['idx']
        return None

    # ---- statements
    def assign(self, env, pl, val):
        if not pl['p']:
            env[pl['l']] = val
            return
        if pl['p'][0]['k'] == 'Deref':
            base = env.get(pl['l'])
            if isinstance(base, tuple) and base[0] in ('ref', 'ptr'):
                rest = pl['p'][1:]
                real = [e for e in rest if not (e['k'] == 'Field' and (e.get('adt') in F.BOX_INTERNALS or e.get('adt', '').startswith('std::mem::')))]
                if not real or (len(real) == 1 and real[0]['k'] == 'Field' and real[0]['i'] == 0 and isinstance(val, tuple) and val[0] == 'array'):
                    env[base[1]] = ('boxed', val)
                    return
                tgt = env.get(base[1])
                if isinstance(tgt, tuple) and tgt[0] == 'adt' and len(real) == 1 and real[0]['k'] == 'Field':
                    nf = dict(tgt[3]); nf[real[0].get('name', str(real[0]['i']))] = val
                    env[base[1]] = ('adt', tgt[1], tgt[2], nf)
                    return
            env[pl['l']] = ('unknown', 'store through _%d' % pl['l'])
            return
        # field write on a local aggregate
        tgt = env.get(pl['l'])
        path = [e for e in pl['p'] if e['k'] != 'Downcast']
        if isinstance(tgt, tuple) and tgt[0] == 'adt' and len(path) == 1 and path[0]['k'] == 'Field':
            nf = dict(tgt[3]); nf[path[0].get('name', str(path[0]['i']))] = val
            env[pl['l']] = ('adt', tgt[1], tgt[2], nf)
            return
        env[pl['l']] = ('unknown', 'partial write _%d' % pl['l'])

    def vec_target(self, env, v):
        """local holding the Vec a &mut argument points to"""
        if isinstance(v, tuple) and v[0] in ('ref', 'ptr'):
            return v[1]
        return None

    def call(self, env, t):
        n = F.norm_callee(t)
        args = [self.operand(env, a) for a in t['args']]
        def deref(v):
            for _ in range(8):
                if isinstance(v, tuple) and v[0] in ('ref', 'ptr'):
                    v = env.get(v[1], ('unknown', 'dangling'))
                elif isinstance(v, tuple) and v[0] == 'refval':
                    v = v[1]
                else:
                    break
            return v
        if n in self.models:
            return self.models[n](self, env, t, args, deref)
        if n in ('std::option::Option::is_none', 'std::option::Option::is_some'):
            v = deref(args[0])
            if v[0] in ('some', 'none'):
                return ('const', (v[0] == 'none') == n.endswith('is_none'))
            return ('unknown', n)
        if n == 'std::vec::Vec::len' or n == 'core::slice::<impl [T]>::len':
            v = deref(args[0])
            return ('const', len(v[1])) if v[0] == 'seq' else ('unknown', 'len')
        if n == 'std::vec::Vec::is_empty':
            v = deref(args[0])
            return ('const', len(v[1]) == 0) if v[0] == 'seq' else ('unknown', 'is_empty')
        if n in ('std::vec::Vec::remove', 'std::vec::Vec::pop', 'std::vec::Vec::insert', 'std::vec::Vec::push', 'std::vec::Vec::swap_remove'):
            l = self.vec_target(env, args[0])
            v = env.get(l) if l is not None else None
            if not (isinstance(v, tuple) and v[0] == 'seq'):
                return ('unknown', n)
            items = list(v[1])
            op = n.rsplit('::', 1)[-1]
            if op == 'pop':
                if not items:
                    return ('none',)
                x = items.pop()
                env[l] = ('seq', tuple(items))
                return ('some', x)
            if op == 'push':
                items.append(args[1])
                env[l] = ('seq', tuple(items))
                return ('const', ())
            k = args[1]
            if k[0] != 'const' or not isinstance(k[1], int):
                env[l] = ('unknown', 'vec index')
                return ('unknown', n)
            if op == 'remove':
                if k[1] >= len(items):
                    raise Diverge()
                x = items.pop(k[1])
                env[l] = ('seq', tuple(items))
                return x
            if op == 'swap_remove':
                if k[1] >= len(items):
                    raise Diverge()
                x = items[k[1]]
                items[k[1]] = items[-1]
                items.pop()
                env[l] = ('seq', tuple(items))
                return x
            if op == 'insert':
                if k[1] > len(items):
                    raise Diverge()
                items.insert(k[1], args[2])
                env[l] = ('seq', tuple(items))
                return ('const', ())
        if n in ('std::boxed::Box::new_uninit',):
            return ('boxed', ('uninit',))
        if n in ('std::boxed::box_assume_init_into_vec_unsafe', 'core::slice::<impl [T]>::into_vec', 'std::boxed::Box::assume_init'):
            v = args[0]
            if v[0] == 'boxed' and v[1][0] == 'array':
                return ('seq', tuple(v[1][1]))
            return ('unknown', n)
        if n == 'std::vec::Vec::new' or (n == 'std::default::Default::default' and 'Vec<' in (t['callee']['args'][0] if t['callee'].get('args') else '')):
            return ('seq', ())
        if n in ('std::string::ToString::to_string', 'std::clone::Clone::clone', 'std::convert::Into::into', 'std::convert::From::from', 'std::boxed::Box::new',
                 'std::borrow::ToOwned::to_owned', 'std::string::String::as_str', 'std::ops::Deref::deref', 'std::convert::AsRef::as_ref', 'std::option::Option::as_ref'):
            return deref(args[0])
        if n in ('std::option::Option::unwrap', 'std::option::Option::expect', 'std::result::Result::unwrap'):
            v = deref(args[0])
            if v[0] in ('some', 'ok'):
                return v[1]
            if v[0] in ('none', 'err'):
                raise Diverge()
            return ('unknown', n)
        if n == 'std::ops::Try::branch':
            v = args[0]
            if v[0] in ('ok', 'some'):
                return ('continue', v[1])
            if v[0] in ('err',):
                return ('break', ('err', v[1]))
            if v[0] == 'none':
                return ('break', ('none',))
            if v[0] == 'result?':
                return ('fork', [('continue', v[1]), ('break', ('err', ('unknown-error',)))])
            return ('unknown', 'branch')
        if n == 'std::ops::FromResidual::from_residual':
            return args[0] if args[0][0] in ('err', 'none') else ('err', args[0])
        if n in ('std::cmp::PartialEq::eq', 'std::cmp::PartialEq::ne'):
            a, c = deref(args[0]), deref(args[1])
            a, c = deref(a), deref(c)
            if a[0] == 'const' and c[0] == 'const':
                return ('const', (a[1] == c[1]) == n.endswith('::eq'))
            return ('unknown', n)
        if n in ('core::panicking::panic', 'core::panicking::panic_fmt', 'core::panicking::panic_explicit', 'core::panicking::unreachable_display'):
            raise Diverge()
        if n and n.startswith('std::fmt::Arguments'):
            return ('const', 'fmt')
        return ('unknown', 'call %s' % n)

    # ---- driver
    def run(self, init, start=0, stop_at=()):
        """returns list of (path, value of _0, final env) for every path reaching Return
        (or, with value ('stopped', block), reaching a block in stop_at)"""
        out = []
        work = [(start, dict(init), ())]
        steps = 0
        while work:
            bi, env, path = work.pop()
            steps += 1
            if steps > 5000 or len(out) > MAX_PATHS:
                raise Unmodelled('path explosion in %s' % self.b.path)
            if bi in stop_at and path:
                out.append((path, ('stopped', bi), env))
                continue
            if path.count(bi) > 1:
                raise Unmodelled('loop in %s at bb%d' % (self.b.path, bi))
            path = path + (bi,)
            blk = self.b.blocks[bi]
            for s in blk['stmts']:
                if s['k'] == 'Assign':
                    self.assign(env, s['place'], self.rvalue(env, s['rv']))
            t = blk['term']
            k = t['k']
            if k == 'Return':
                out.append((path, env.get(0, ('unknown', 'no return value')), env))
            elif k == 'Goto':
                work.append((t['target'], env, path))
            elif k == 'Drop':
                work.append((t['target'], env, path))
            elif k == 'Assert':
                work.append((t['target'], env, path))
            elif k == 'Call':
                try:
                    v = self.call(env, t)
                except Diverge:
                    continue
                if t['target'] is None:
                    continue
                if isinstance(v, tuple) and v and v[0] == 'fork':
                    for alt in v[1]:
                        e2 = dict(env)
                        self.assign(e2, t['dest'], alt)
                        work.append((t['target'], e2, path))
                else:
                    self.assign(env, t['dest'], v)
                    work.append((t['target'], env, path))
            elif k == 'SwitchInt':
                d = self.operand(env, t['discr'])
                if d[0] == 'const' and isinstance(d[1], str) and len(d[1]) == 1:
                    d = ('const', ord(d[1]))
                if d[0] == 'const' and isinstance(d[1], (bool, int)):
                    iv = int(d[1])
                    tg = [a[1] for a in t['arms'] if int(a[0]) == iv]
                    work.append((tg[0] if tg else t['otherwise'], env, path))
                else:
                    for tg in self.b.succ(bi):
                        work.append((tg, dict(env), path))
            elif k in ('Unreachable', 'UnwindResume', 'UnwindTerminate'):
                continue
            else:
                raise Unmodelled('terminator %s in %s' % (k, self.b.path))
        return out


class Diverge(Exception):
    pass
