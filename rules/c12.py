"""C12 — string and bytes literals denote exactly the characters written (escape-table clause only)."""
import json, os, re
from . import facts as F
from . import atn as A
from .absint import Interp, Unmodelled, is_unknown

LEVEL = 'other'
TRUSTED = ['rustc nightly (MIR, constants)', 'tables/reference/escapes.json (CEL specification escape table)', 'the serialized lexer ATN embedded in gen/cellexer.rs (decoded, not regenerated)',
           'std: char::from_u32, from_str_radix, Iterator::take/collect contracts']
EXPLANATION = ('R1: for each decoder (parse_quoted_string, parse_bytes) and each ASCII character c, the code reached after a backslash followed by c is interpreted abstractly (every path) and classified: '
               'appends exactly one constant code point / a hex escape of n digits / an octal escape / error. The resulting table must equal the CEL specification table and must accept exactly the escape '
               'characters the lexer ATN admits (ESC_CHAR_SEQ, ESC_BYTE_SEQ, ESC_UNI_SEQ, ESC_OCT_SEQ); the numeric helpers use radix 16/8, the stated digit counts and the <= 0o377 bound; bytes reject \\u/\\U; raw strings '
               'must not look at backslashes. R2: results of char::from_u32 are propagated as errors (no unwrap_or / replacement character). Delimiter handling (triple quotes, raw bytes) is value-level and not decided.')
ASSUMPTIONS = ['only the escape-table clause of C12 is decided; quoting-style/delimiter handling is not']

HERE = os.path.dirname(os.path.dirname(os.path.abspath(__file__)))
PARSE = 'cel_parser::parse::'


def models(cp):
    def next_(it, env, t, args, deref):
        k = env.get('@n', 0)
        env['@n'] = k + 1
        ch = ('const', cp) if k == 0 else ('input', k)
        return ('fork', [('some', ('tuple', [('const', 0), ch])), ('none',)])
    def push(it, env, t, args, deref):
        tgt = it.vec_target(env, args[0])
        v = env.get(tgt) if tgt is not None else None
        if isinstance(v, tuple) and v[0] == 'seq':
            env[tgt] = ('seq', v[1] + (args[1],))
        else:
            env['@pushes'] = env.get('@pushes', ()) + (args[1],)
        return ('const', ())
    def hexf(it, env, t, args, deref):
        return ('result?', ('hex', args[0]))
    def octf(it, env, t, args, deref):
        return ('result?', ('oct', deref(args[0])))
    def passthru(it, env, t, args, deref):
        return args[0]
    def ok_or(it, env, t, args, deref):
        v = args[0]
        if v[0] == 'some':
            return ('ok', v[1])
        if v[0] == 'none':
            return ('err', args[1])
        return ('unknown', 'ok_or')
    def contains(it, env, t, args, deref):
        r, x = deref(args[0]), deref(args[1])
        x = deref(x)
        if r[0] == 'range' and x[0] == 'const' and r[1][0] == 'const' and r[2][0] == 'const':
            return ('const', r[1][1] <= x[1] <= r[2][1])
        return ('unknown', 'contains')
    def range_new(it, env, t, args, deref):
        return ('range', args[0], args[1])
    def collect(it, env, t, args, deref):
        return ('collect', deref(args[0]))
    def radix(it, env, t, args, deref):
        return ('result?', ('radix', deref(args[0]), args[1]))
    return {
        'std::iter::Iterator::next': next_, 'std::string::String::push': push, 'std::vec::Vec::push': push,
        PARSE + 'parse_unicode_hex': hexf, PARSE + 'parse_unicode_oct': octf,
        'std::result::Result::map_err': passthru, 'core::slice::<impl [T]>::iter': passthru, 'std::iter::IntoIterator::into_iter': passthru,
        'std::option::Option::ok_or': ok_or, 'std::ops::RangeInclusive::contains': contains, 'std::ops::RangeInclusive::new': range_new,
        'std::iter::Iterator::collect': collect, 'core::num::<impl u8>::from_str_radix': radix, 'core::num::<impl u32>::from_str_radix': radix,
    }


def edge_conds(b, pv, block):
    from .intervals import mandatory_edges
    out = []
    for s_, l, taken in mandatory_edges(b, block):
        for term in pv.of_local(l):
            out.append((term, taken))
    return out


def term_mentions_text(t):
    return 'get_text' in F.term_str(t)


def backslash_entry(b):
    """(true target of `c == '\\\\'`, local c, loop-header blocks)"""
    for bi in sorted(b.live_blocks()):
        t = b.blocks[bi]['term']
        if t['k'] != 'SwitchInt':
            continue
        l = F.op_local(t['discr'])
        ds = b.defs().get(l, []) if l is not None else []
        if len(ds) != 1 or ds[0][1] == 'term':
            continue
        rv = ds[0][2]['rv']
        if rv['k'] == 'BinaryOp' and rv['op'] == 'Eq' and rv['lty'] == 'char' and F.op_const(rv['r']) == '\\':
            tt = [a[1] for a in t['arms'] if int(a[0]) == 0]
            false_t = tt[0] if tt else t['otherwise']
            true_t = t['otherwise'] if false_t != t['otherwise'] else [a[1] for a in t['arms'] if int(a[0]) != 0][0]
            cl = F.op_local(rv['l'])
            # follow copies back to the named char local
            for _ in range(4):
                dd = b.defs().get(cl, [])
                if len(dd) == 1 and dd[0][1] != 'term' and dd[0][2]['rv']['k'] == 'Use' and F.op_local(dd[0][2]['rv']['op']) is not None:
                    cl = F.op_local(dd[0][2]['rv']['op'])
                else:
                    break
            headers = {hb for hb, ht in b.calls() if F.norm_callee(ht) == 'std::iter::Iterator::next' and b.dominates(hb, bi)}
            return true_t, cl, headers, bi
    return None


def render(v):
    if isinstance(v, tuple):
        if v[0] == 'const':
            return repr(v[1]) if not isinstance(v[1], str) else 'U+%04X' % ord(v[1]) if len(v[1]) == 1 else repr(v[1])
        if v[0] == 'hex':
            return 'hex(%s)' % render(v[1])
        if v[0] == 'oct':
            return 'oct(first=%s)' % render(v[1])
        if v[0] == 'radix':
            return 'radix%s(%s)' % (render(v[2]), render(v[1]))
        if v[0] == 'collect':
            return 'collect(%s)' % render(v[1])
        if v[0] == 'array':
            return '[%s]' % ','.join(render(x) for x in v[1])
        if v[0] == 'input':
            return 'in%d' % v[1]
        if v[0] == 'refval':
            return render(v[1])
        if v[0] == 'unknown':
            return '<?%s>' % v[1]
    return str(v)


def classify(b, cp):
    """set of outcome strings for the escape `\\<cp>`"""
    be = backslash_entry(b)
    if be is None:
        raise F.Lost('no `c == \'\\\\\'` test found in %s' % b.path)
    true_t, cl, headers, _ = be
    it = Interp(b, models(cp))
    try:
        res = it.run({cl: ('const', '\\')}, start=true_t, stop_at=headers)
    except Unmodelled as e:
        return {'<unmodelled: %s>' % e}
    outs = set()
    for path, val, env in res:
        if env.get('@n', 0) == 0:
            continue            # path that did not enter escape processing (not inside quotes)
        pushes = env.get('@pushes', ())
        if val[0] == 'stopped':
            outs.add('push[%s]' % ', '.join(render(x) for x in pushes))
        elif val[0] == 'err':
            e = val[1]
            if isinstance(e, tuple) and e[0] == 'adt':
                outs.add('Err(%s)' % e[2])
            else:
                outs.add('Err(?)')
        elif val[0] == 'ok':
            outs.add('Ok-return')
        else:
            outs.add('<?%s>' % (val,))
    return outs


def summarise(outs):
    """collapse the error/incomplete-input outcomes: what does a *successful* decoding append?"""
    ok = sorted(o for o in outs if o.startswith('push['))
    err = sorted(o for o in outs if not o.startswith('push['))
    return ok, err


def lexer_escape_sets(fx):
    """escape characters admitted by the lexer rules, from the decoded ATN"""
    consts = {c['path']: c for c in fx.crate('cel_parser')['consts']}
    c = consts.get('cel_parser::gen::cellexer::_serializedATN')
    if not c or 'val' not in c:
        raise F.Lost('lexer _serializedATN constant not found')
    a = A.decode(c['val'])
    nb = fx.body('cel_parser::gen::cellexer::ruleNames')
    names = [o.get('val') for _, _, s in nb.stmts() if s['k'] == 'Assign' and s['rv']['k'] == 'Aggregate' for o in s['rv']['ops']]
    if len(names) != len(a.rule_start):
        raise F.Lost('lexer ruleNames (%d) do not match the ATN (%d rules)' % (len(names), len(a.rule_start)))
    idx = {n: i for i, n in enumerate(names)}
    out = {}

    def first_consuming_after_backslash(rule):
        """label sets of the consuming transitions of `rule` in order of distance from the rule start, skipping rule refs"""
        start = a.rule_start[idx[rule]]
        seqs = []
        seen = set()
        frontier = [(start, ())]
        while frontier:
            st, acc = frontier.pop()
            if (st, len(acc)) in seen or len(acc) > 12:
                continue
            seen.add((st, len(acc)))
            s_ = a.states[st]
            if s_['type'] == A.ST_RULE_STOP and s_['rule'] == idx[rule]:
                seqs.append(acc)
                continue
            for e in s_['trans']:
                if e['type'] == A.RULE:
                    frontier.append((e['follow'], acc + (('rule', names[e['rule']]),)))
                else:
                    lab = A.labels(e)
                    if lab is None:
                        frontier.append((e['trg'], acc))
                    else:
                        frontier.append((e['trg'], acc + (('set', frozenset(A.interval_members(lab))),)))
        return seqs
    for r in ('ESC_CHAR_SEQ', 'ESC_BYTE_SEQ', 'ESC_UNI_SEQ', 'ESC_OCT_SEQ'):
        if r not in idx:
            raise F.Lost('lexer rule %s not found' % r)
        out[r] = first_consuming_after_backslash(r)
    return out, names, a


GREEDY = re.compile(r'^core::str::<impl str>::(trim|trim_matches|trim_start_matches|trim_end_matches|trim_left_matches|trim_right_matches|trim_start|trim_end)$')


def greedy_trims(b, rep):
    for bi, t in b.calls():
        n = F.norm_callee(t) or ''
        if GREEDY.match(n):
            fn = F.norm_path(b.path)
            rep.violation('R3', 'greedy-trim/%s/%s' % (re.sub(r'^.*::', '', re.sub(r'::\{closure#\d+\}', '', fn)) if not fn.startswith('verif_fixtures') else fn, n.rsplit('::', 1)[-1]), F.loc_of(t['span']),
                          '%s removes every leading/trailing match, also quote characters that belong to the content: b\'it\\\'\' and b\'\'\'\'a\'\'\' lose bytes (strip exactly the delimiter: strip_prefix/strip_suffix or a slice)' % n)


def fixtures(ffx, rep):
    from .report import Collector, expect_fixture_hits
    col = Collector()
    for b in ffx.bodies.values():
        if b.path.startswith('verif_fixtures::c12::'):
            greedy_trims(b, col)
    expect_fixture_hits(rep, col, {'R3': ['greedy-trim/verif_fixtures::c12::greedy_delimiters/trim_matches', 'greedy-trim/verif_fixtures::c12::greedy_suffix/trim_start_matches', 'greedy-trim/verif_fixtures::c12::greedy_suffix/trim_end_matches']})
    silent = [k for k in col.bad.get('R3', []) if 'good' in k]
    rep.check(not silent, 'fixture', 'R3/silent-on-exact-stripping', 'fixtures/', 'strip_prefix/strip_suffix accepted', 'rule fires on exact stripping: %s' % silent)


def run(fx, rep):
    from .report import producer_rules
    producer_rules(fx, rep, 'producer rule: string and bytes literal nodes come only from their literal visitors (C04 R7/R9)', [('c04', 'C04', '^(R7/visit_(String|Bytes|ConstantLiteral)/|R9/)')], 5)
    rep.rule('R1', 'escape tables of both decoders equal the CEL specification and accept exactly what the lexer admits; numeric helpers: radix, digit counts, bound; raw strings ignore backslashes')
    rep.rule('R2', 'invalid code points are errors (char::from_u32 propagated, no replacement)')
    ref = json.load(open(os.path.join(HERE, 'tables/reference/escapes.json')))
    single = {k: v for k, v in ref['single'].items()}
    # ---------------- lexer sets
    lex, names, a = lexer_escape_sets(fx)
    def after_backslash(seq):
        # seq[0] is the BACKSLASH rule reference
        return seq[1:] if seq and seq[0] == ('rule', 'BACKSLASH') else None
    lex_single = set()
    for seq in lex['ESC_CHAR_SEQ']:
        ab = after_backslash(seq)
        if ab and len(ab) == 1 and ab[0][0] == 'set':
            lex_single |= {chr(x) for x in ab[0][1]}
    lex_byte = set()
    for seq in lex['ESC_BYTE_SEQ']:
        ab = after_backslash(seq)
        if ab and ab[0][0] == 'set':
            lex_byte |= {chr(x) for x in ab[0][1]}
    lex_uni = {}
    for seq in lex['ESC_UNI_SEQ']:
        ab = after_backslash(seq)
        if ab and ab[0][0] == 'set':
            for x in ab[0][1]:
                lex_uni[chr(x)] = len(ab) - 1
    lex_oct = set()
    for seq in lex['ESC_OCT_SEQ']:
        ab = after_backslash(seq)
        if ab and ab[0][0] == 'set':
            lex_oct |= {chr(x) for x in ab[0][1]}
    rep.check(lex_single == set(single), 'R1', 'lexer/ESC_CHAR_SEQ=spec', 'antlr/src/gen/cellexer.rs', 'lexer admits %s' % ''.join(sorted(lex_single)),
              'lexer single-character escapes %s differ from the specification %s' % (sorted(lex_single), sorted(single)))
    rep.check(lex_byte == set(ref['hex2']) and lex_uni == {'u': 4, 'U': 8} and lex_oct == set(ref['octal_first']), 'R1', 'lexer/numeric-escapes=spec', 'antlr/src/gen/cellexer.rs',
              'x/X + 2 hex, u + 4, U + 8, [0-3] + 2 octal', 'lexer numeric escapes differ from the specification: %s %s %s' % (sorted(lex_byte), lex_uni, sorted(lex_oct)))
    # ---------------- decoders
    for dec, kind in (('parse_quoted_string', 'string'), ('parse_bytes', 'bytes')):
        b = fx.body(PARSE + dec)
        rep.analysed(b, calls=sum(1 for _ in b.calls()))
        for cpi in range(0x20, 0x7f):
            ch = chr(cpi)
            ok, err = summarise(classify(b, ch))
            key = '%s/escape-%s' % (kind, ch if ch.isalnum() else 'U+%04X' % cpi)
            loc = b.loc()
            if any(o.startswith('<') for o in ok + err):
                rep.violation('R1', key, loc, 'escape \\%s not analysable (fail closed): %s' % (ch, ok + err))
                continue
            if ch in single:
                want = 'push[U+%04X]' % single[ch] if kind == 'string' else 'push[%d]' % single[ch]
                wants = {want, 'push[U+%04X]' % single[ch], 'push[%r]' % single[ch]}
                if not ok:
                    rep.violation('R1', key + '/rejected', loc, '%s literal: escape \\%s is admitted by the lexer and the specification but rejected by %s (%s)' % (kind, ch, dec, err))
                elif set(ok) <= wants and len(ok) == 1:
                    rep.ok('R1', key, loc, '\\%s -> %s' % (ch, ok[0]))
                elif any(o in wants for o in ok):
                    extra = [o for o in ok if o not in wants]
                    rep.violation('R1', key + '/extra-output:' + ';'.join(extra).replace(' ', ''), loc, '%s literal: escape \\%s can also append %s (expected exactly U+%04X)' % (kind, ch, extra, single[ch]))
                else:
                    rep.violation('R1', key + '/wrong-code-point', loc, '%s literal: escape \\%s appends %s, specification says U+%04X' % (kind, ch, ok, single[ch]))
            elif ch in ref['hex2'] or (ch in ref['hex4'] or ch in ref['hex8']):
                n = 2 if ch in ref['hex2'] else (4 if ch in ref['hex4'] else 8)
                if kind == 'bytes' and n != 2:
                    rep.check(not ok, 'R1', key + '/rejected-in-bytes', loc, '\\%s is rejected in bytes literals' % ch, 'bytes literal accepts \\%s (%s)' % (ch, ok))
                    continue
                if not ok:
                    rep.violation('R1', key + '/rejected', loc, '%s literal: escape \\%s (+%d hex digits) is admitted by the lexer and the specification but rejected by %s' % (kind, ch, n, dec))
                    continue
                if kind == 'string':
                    good = ok == ['push[hex(%d)]' % n]
                else:
                    good = ok == ['push[radix16(collect([in1,in2]))]']
                rep.check(good, 'R1', key, loc, '\\%s -> %d hex digits' % (ch, n), '%s literal: escape \\%s decodes as %s, expected %d hex digits radix 16' % (kind, ch, ok, n))
            elif ch in ref['octal_first']:
                if kind == 'string':
                    good = ok == ['push[oct(first=U+%04X)]' % cpi]
                else:
                    good = ok == ['push[radix8(collect([U+%04X,in1,in2]))]' % cpi]
                rep.check(good, 'R1', key, loc, '\\%s.. -> 3 octal digits' % ch, '%s literal: octal escape \\%s.. decodes as %s' % (kind, ch, ok))
            else:
                rep.check(not ok, 'R1', key, loc, 'rejected', '%s literal: \\%s is not an escape of the specification/lexer but %s accepts it (%s)' % (kind, ch, dec, ok))
    # ---------------- numeric helpers
    hx = fx.body(PARSE + 'parse_unicode_hex')
    oc = fx.body(PARSE + 'parse_unicode_oct')
    for hb, radix_want, nm in ((hx, 16, 'hex'), (oc, 8, 'oct')):
        rep.analysed(hb)
        pv = F.Prov(hb)
        fr = [(bi, t) for bi, t in hb.calls() if F.norm_callee(t) == 'core::num::<impl u32>::from_str_radix']
        rep.check(len(fr) == 1 and F.op_const(fr[0][1]['args'][1]) == radix_want, 'R1', 'helper/%s/radix-%d' % (nm, radix_want), hb.loc(), 'u32::from_str_radix(_, %d)' % radix_want,
                  'parse_unicode_%s does not parse with radix %d' % (nm, radix_want))
        tk = [(bi, t) for bi, t in hb.calls() if F.norm_callee(t) == 'std::iter::Iterator::take']
        okk = len(tk) == 1
        if okk:
            n = pv.of_operand(tk[0][1]['args'][1])
            okk = (n == {('param', 1)}) if nm == 'hex' else (n == {('const', 2)})
        rep.check(okk, 'R1', 'helper/%s/digit-count' % nm, hb.loc(), 'take(length)' if nm == 'hex' else 'first digit + take(2)', 'parse_unicode_%s takes a wrong number of digits' % nm)
    # octal bound u <= 255 (in the and_then closure)
    bound = False
    for cb in fx.bodies_with_closures(oc.path):
        for _, _, s in cb.stmts():
            if s['k'] == 'Assign' and s['rv']['k'] == 'BinaryOp' and s['rv']['op'] in ('Le', 'Lt') and s['rv']['lty'] == 'u32':
                c = F.op_const(s['rv']['r'])
                if (s['rv']['op'] == 'Le' and c == 255) or (s['rv']['op'] == 'Lt' and c == 256):
                    bound = True
    rep.check(bound, 'R1', 'helper/oct/bound-0o377', oc.loc(), 'value <= 255', 'octal escapes above \\377 are not rejected')
    # ---------------- R2
    for hb in (hx, oc):
        n = 0
        for cb in fx.bodies_with_closures(hb.path):
            cpv = F.Prov(cb, transparent={})
            for bi, t in cb.calls():
                if F.norm_callee(t) in ('core::char::methods::<impl char>::from_u32', 'std::char::methods::<impl char>::from_u32', 'std::char::from_u32', 'core::char::from_u32'):
                    n += 1
                    # its result must flow into ok_or / ok_or_else / `?`, never unwrap_or*
                    users = [F.norm_callee(t2) for b2, t2 in cb.calls() if any(x[0] == 'call' and x[3] == bi for a_ in t2['args'] for x in cpv.of_operand(a_))]
                    okk = bool(users) and all(u in ('std::option::Option::ok_or', 'std::option::Option::ok_or_else') for u in users)
                    rep.check(okk, 'R2', '%s/from_u32-propagated/%d' % (F.norm_path(hb.path).rsplit('::', 1)[-1], n), F.loc_of(t['span']), 'char::from_u32(u).ok_or(error)',
                              'invalid code points are not reported: char::from_u32 result used by %s' % users)
            for bi, t in cb.calls():
                if F.norm_callee(t) in ('std::char::from_u32_unchecked', 'core::char::methods::<impl char>::from_u32_unchecked'):
                    rep.violation('R2', 'unchecked-char', F.loc_of(t['span']), 'from_u32_unchecked')
        rep.check(n >= 1, 'R2', '%s/uses-from_u32' % F.norm_path(hb.path).rsplit('::', 1)[-1], hb.loc(), 'code point validated by char::from_u32', 'no char::from_u32 validation found')
    # ---------------- raw strings: no backslash processing
    rb = fx.body(PARSE + 'parse_raw_string')
    rep.analysed(rb)
    be = backslash_entry(rb)
    if be is None:
        rep.ok('R1', 'raw/no-backslash-branch', rb.loc(), 'raw strings never test for a backslash')
    else:
        # the raw decoder has a backslash branch: interpret it for every ASCII follower; a raw literal must keep both characters
        for cp in [chr(c) for c in range(0x20, 0x7f)] + ['\u00e9']:
            outs = classify(rb, cp)
            want = {'push[U+005C, U+%04X]' % ord(cp), 'push[U+005C]'}        # (second form: the backslash was the last character)
            extra = sorted(outs - want)
            missing = sorted(want - outs)
            key = 'raw/backslash+U+%04X' % ord(cp)
            if not extra and not missing:
                rep.ok('R1', key, rb.loc(), 'backslash and follower are both kept')
            else:
                rep.violation('R1', key + '/' + ';'.join(['extra:' + e for e in extra] + ['missing:' + m_ for m_ in missing]).replace(' ', ''), rb.loc(),
                              'raw literal, backslash followed by %r: the decoder %s%s although raw literals perform no escape processing' %
                              (cp, ('can also produce ' + ', '.join(extra)) if extra else '', (' and never produces ' + ', '.join(missing)) if missing else ''))
    # ---------------- R3 delimiter shapes of bytes literals
    rep.rule('R3', 'bytes literals: every delimiter shape the lexer admits (raw prefix, single or triple quotes) is stripped by the visitor; raw bytes are not escape-processed')
    from .grammar import Grammar
    g = Grammar(fx, 'lexer')
    shapes = set()
    for p in g.paths('STRING', limit=1, codepoints=True):
        raw = bool(p) and p[0] == ('rule', 'RAW', 0)
        q = [x for x in p if x[0] == 'tok']
        okq = all(len(x[1]) == 1 and next(iter(x[1])) in ('"', "'") for x in q) and len(q) in (2, 6)
        if not okq:
            raise F.Lost('unexpected STRING token shape %s' % (p,))
        shapes.add((raw, len(q) // 2))
    bp = g.paths('BYTES', limit=1, codepoints=True)
    if bp != {(('tok', frozenset(['b', 'B'])), ('rule', 'STRING', 0))}:
        raise F.Lost('unexpected BYTES token shape %s' % sorted(bp))
    need = sorted((1 + (1 if raw else 0) + ql, ql, raw) for raw, ql in shapes)      # (prefix length, suffix length, raw)
    vb = [x for x in fx.bodies.values() if x.crate == 'cel_parser' and x.path.endswith('::visit_Bytes') and 'parser.rs' in x.loc()]
    if len(vb) != 1:
        raise F.Lost('visit_Bytes not found')
    vb = vb[0]
    rep.analysed(vb)
    vpv = F.Prov(vb)
    const_slices = []
    for bi, t in vb.calls():
        if F.norm_callee(t) == 'std::ops::Index::index' and ('String' in t['arg_tys'][0] or 'str' in t['arg_tys'][0]):
            alts = set()
            for x in vpv.of_operand(t['args'][1]):
                if x[0] == 'agg' and x[1].endswith('Range::Range') and len(x[2]) == 2:
                    lo, hi = x[2]
                    if lo[0] == 'const' and isinstance(lo[1], int) and hi[0] == 'f' and hi[1][0] == 'binop' and hi[1][1].startswith('Sub') and hi[1][3][0] == 'const' and 'len' in F.term_str(hi[1][2]):
                        alts.add((lo[1], hi[1][3][1]))
                    else:
                        alts.add(None)
                else:
                    alts.add(None)
            # one single constant (lo, hi) pair, whatever the text looks like
            if len(alts) == 1 and None not in alts:
                a_, b_ = next(iter(alts))
                const_slices.append((a_, b_, bi))
    # a constant-offset slice that is not control dependent on any test of the text handles exactly one shape
    unconditional = [c for c in const_slices if not any(term_mentions_text(tm) for tm, _ in edge_conds(vb, vpv, c[2]))]
    if unconditional:
        handled = {(a, b_) for a, b_, _ in unconditional}
        missing = [n for n in need if (n[0], n[1]) not in handled or n[2]]
        rep.check(not missing, 'R3', 'bytes/delimiter-shapes', vb.loc(), 'constant slice covers every admitted shape',
                  'visit_Bytes strips the delimiters with the constant slice %s, but the lexer admits the shapes (prefix, suffix, raw) %s: e.g. b\'\'\'abc\'\'\' keeps two quotes on each side and br\'a\\nb\' is escape-processed' % (sorted(handled), missing))
    else:
        rep.ok('R3', 'bytes/delimiter-shapes', vb.loc(), 'delimiters are stripped depending on the text (no unconditional constant-offset slice); lexer shapes: %s' % need)
    if any(n[2] for n in need):
        tests_raw = False
        for bb in [vb] + [fx.bodies[c] for c in fx.children.get(vb.path, [])]:
            bpv = F.Prov(bb)
            for bi, t in bb.calls():
                for a in t['args']:
                    for x in bpv.of_operand(a):
                        if F.term_contains(x, lambda y: y[0] == 'const' and y[1] in ('r', 'R', 'br', 'bR', 'Br', 'BR')) or (x[0] == 'agg' and any(e == ('const', 'r') for e in x[2])):
                            tests_raw = True
        rep.check(tests_raw, 'R3', 'bytes/raw-prefix-recognised', vb.loc(), 'the raw prefix r|R is recognised', 'the lexer admits raw bytes literals (b r\'..\') but visit_Bytes never looks for the r|R prefix: raw bytes are escape-processed and keep a quote')
    # ---------------- R4 delimiter shapes of string literals
    rep.rule('R4', 'string literals: the triple-quoted shapes the lexer admits are recognised before decoding (their body may contain the quote character unescaped)')
    ps = fx.body(PARSE + 'parse_string')
    vs = [x for x in fx.bodies.values() if x.crate == 'cel_parser' and x.path.endswith('::visit_String') and 'parser.rs' in x.loc()]
    if len(vs) != 1:
        raise F.Lost('visit_String not found')
    sbodies = [vs[0]] + [fx.bodies[c] for c in fx.children.get(vs[0].path, [])] + list(fx.bodies_with_closures(ps.path))
    tested = set()
    for bb in sbodies:
        rep.analysed(bb)
        bpv = F.Prov(bb)
        for bi, t in bb.calls():
            n = F.norm_callee(t) or ''
            if n in ('core::str::<impl str>::strip_prefix', 'core::str::<impl str>::starts_with', 'core::str::<impl str>::strip_suffix', 'core::str::<impl str>::ends_with',
                     'std::cmp::PartialEq::eq', 'core::str::<impl str>::get', 'core::str::<impl str>::find'):
                for a in t['args'][1:]:
                    for x in bpv.of_operand(a):
                        def consts(y):
                            if y[0] == 'const' and isinstance(y[1], str):
                                tested.add(y[1])
                            return False
                        F.term_contains(x, consts)
    for raw, ql in sorted(shapes):
        if ql != 3:
            continue
        for q in ("'", '"'):
            d = q * 3
            rep.check(d in tested, 'R4', 'string/%striple-%s-recognised' % ('raw-' if raw else '', 'single' if q == "'" else 'double'), ps.loc(), 'the delimiter %s is tested for' % d,
                      'the lexer admits %s%s...%s with unescaped %s inside, but neither parse_string nor visit_String ever tests for the delimiter %s (constants tested: %s): %s%sa%sb%s is rejected or loses its quotes' %
                      ('r' if raw else '', d, d, q, d, sorted(tested), 'r' if raw else '', d, q, d))
    # ---------------- R5 the lexer reads the source text itself
    rep.rule('R5', 'the text handed to the lexer is the source string itself (no normalisation pass that could alter characters inside literals)')
    pb = fx.body('cel_parser::parser::Parser::parse')
    ppv = F.Prov(pb, transparent={})
    ins = [(bi, t) for bi, t in pb.calls() if F.norm_callee(t) == 'antlr4rust::InputStream::new']
    okk = len(ins) == 1 and all(x == ('param', 2) for x in ppv.of_operand(ins[0][1]['args'][0]))
    rep.check(okk, 'R5', 'lexer-input-is-the-source', pb.loc(), 'InputStream::new(source)',
              'Parser::parse feeds the lexer %s instead of its `source` parameter: a rewriting pass also changes the characters inside string and bytes literals' %
              ([F.term_str(x)[:80] for bi, t in ins for x in ppv.of_operand(t['args'][0])] or 'nothing'))
    # greedy trimming of the literal text
    lit = [b for b in fx.bodies.values() if b.raw['kind'] != 'Promoted' and not b.is_derived() and
           ((b.crate == 'cel_parser' and b.path.startswith(PARSE)) or
            (b.crate == 'cel_parser' and 'parser.rs' in b.loc() and re.search(r'::visit_(Bytes|String)(::|$)', b.path)))]
    ng = 0
    for b in lit:
        ng += 1
        greedy_trims(b, rep)
    rep.check(ng >= 10, 'R3', 'literal-text-functions-found', 'antlr/src/parse.rs', '%d functions handle literal text' % ng, 'only %d literal-text functions found (anchor lost)' % ng)
    rep.floor('R1', 190)
