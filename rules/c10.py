"""C10 — comprehension macros compute their defining folds.

R1: template extraction (constant-tree propagation over the loop-free macro
expanders) compared with the reference expansions; R2: shape of the fold loop in
the evaluator; R3: @not_strictly_false."""
import json, os, re
from . import facts as F
from .absint import Interp, Unmodelled, is_unknown
from .evalmodel import EvalModel, reachable_under

LEVEL = 'other'
TRUSTED = ['rustc nightly (MIR, constant evaluation)', 'tables/reference/macros.json (cel-go documented expansions)', 'std Vec::remove/insert/push/pop, slice::Iter and hash_map::Keys contracts']
EXPLANATION = ('R1: for all/exists/exists_one/map(2,3)/filter the expanders are interpreted abstractly (finite trees, exact Vec sequences, every path) for each arity find_expander admits and the resulting '
               '(iter_var, iter_range, accu_var, accu_init, loop_cond, loop_step, result) must equal the reference expansion; find_expander\'s name/arity/receiver table is enumerated over its decision partition '
               '(8 names x 5 arities x receiver present/absent) and compared too; has() sets test=true on the select. R2: in the evaluator\'s Comprehension arm each iteration evaluates loop_cond first, leaves the loop when '
               'to_bool is false, binds iter_var to the current item, evaluates loop_step, binds accu_var to its value; result is evaluated after the loop; errors of cond/step leave the function; iteration is forward '
               'over list elements / map keys. R3: @not_strictly_false maps Bool(b) to b and everything else to true. That &&, ||, +, ?: compute the right values is covered structurally by C06/C08.')
ASSUMPTIONS = ['expanders must stay loop-free and use modelled Vec operations; otherwise the check fails closed', 'the reference table encodes cel-go\'s documented expansions']

HERE = os.path.dirname(os.path.dirname(os.path.abspath(__file__)))
MAC = 'cel_parser::macros::'


def render(v):
    """abstract value -> template string"""
    if not isinstance(v, tuple):
        return repr(v)
    k = v[0]
    if k == 'ided':
        return render(v[1])
    if k == 'const':
        if isinstance(v[1], bool):
            return 'true' if v[1] else 'false'
        return str(v[1])
    if k == 'arg':
        return '$%d' % v[1]
    if k == 'target':
        return '$target'
    if k == 'ident_of':
        return 'ident(%s)' % render(v[1])
    if k == 'some':
        return 'Some(%s)' % render(v[1])
    if k == 'none':
        return 'None'
    if k == 'seq':
        return '[%s]' % ', '.join(render(x) for x in v[1])
    if k == 'adt':
        name = v[1].rsplit('::', 1)[-1]
        f = v[3]
        if name == 'Expr':
            if v[2] == 'Call':
                c = f['0']
                if c[0] == 'adt':
                    cf = c[3]
                    tgt = render(cf['target'])
                    return '%s%s(%s)' % ('' if tgt == 'None' else tgt + '.', render(cf['func_name']), ', '.join(render(x) for x in cf['args'][1]) if cf['args'][0] == 'seq' else render(cf['args']))
            if v[2] == 'Ident':
                return render(f['0'])
            if v[2] == 'Literal':
                return render(f['0'])
            if v[2] == 'List':
                l = f['0']
                return render(l[3]['elements']) if l[0] == 'adt' else render(l)
            return '%s(%s)' % (v[2], ', '.join(render(x) for x in f.values()))
        if name == 'Val':
            return render(f['0'])
        return '%s::%s{%s}' % (name, v[2], ', '.join('%s: %s' % (a, render(b)) for a, b in f.items()))
    if k == 'unknown':
        return '<?%s>' % v[1]
    return str(v)


def models():
    def next_expr(it, env, t, args, deref):
        return ('ided', args[1])
    def extract_ident(it, env, t, args, deref):
        return ('result?', ('ident_of', args[0]))
    def pos_for(it, env, t, args, deref):
        return ('none',)
    return {'cel_parser::parser::MacroExprHelper::next_expr': next_expr, MAC + 'extract_ident': extract_ident,
            'cel_parser::parser::MacroExprHelper::pos_for': pos_for}


def expand(fx, fn, arity):
    b = fx.body(MAC + fn)
    it = Interp(b, models())
    init = {1: ('helper',), 2: ('some', ('target',)), 3: ('seq', tuple(('arg', i) for i in range(arity)))}
    res = it.run(init)
    oks = [r for r in res if isinstance(r[1], tuple) and r[1][0] == 'ok']
    return b, oks


def find_expander_table(fx, rep, rule, ref=None):
    """enumerate find_expander over its decision partition (names x arities 0..4 x receiver present/absent) and compare with the reference"""
    ref = ref or json.load(open(os.path.join(HERE, 'tables/reference/macros.json')))
    fe = fx.body(MAC + 'find_expander')
    rep.analysed(fe)
    names = ref['find_expander']['names'] + ['no_such_macro']
    table = {}
    bad = None
    for nm in names:
        for n in range(0, 5):
            for tgt in (True, False):
                it = Interp(fe, {})
                init = {1: ('const', nm), 2: ('some', ('target',)) if tgt else ('none',), 3: ('seq', tuple(('arg', i) for i in range(n)))}
                try:
                    res = it.run(init)
                except Unmodelled as e:
                    bad = str(e)
                    res = []
                vals = {repr(r[1]) for r in res}
                if len(vals) != 1:
                    bad = bad or 'ambiguous result for (%s, %d, %s): %s' % (nm, n, tgt, sorted(vals)[:3])
                    continue
                r = res[0][1]
                if r[0] == 'some' and r[1][0] == 'fn':
                    table.setdefault(r[1][1].rsplit('::', 1)[-1], []).append((nm, n, tgt))
                elif r[0] != 'none':
                    bad = bad or 'unrecognised result %r' % (r,)
    if bad:
        rep.violation(rule, 'find_expander/analysable', fe.loc(), 'find_expander not analysable (fail closed): %s' % bad)
    want = {k: sorted(tuple(x) for x in v) for k, v in ref['find_expander']['table'].items()}
    got = {k: sorted(v) for k, v in table.items()}
    for k in sorted(set(want) | set(got)):
        rep.check(want.get(k) == got.get(k), rule, 'find_expander/%s' % k, fe.loc(), 'selected for %s' % got.get(k),
                  'find_expander selects %s for %s, reference: %s' % (k, got.get(k), want.get(k)))


def run(fx, rep):
    from .report import producer_rules
    producer_rules(fx, rep, 'producer rules: macros expand around their operands (C04 R6/R9); re-binding a variable in a scope always writes (C11 R2/R4); ranging over a map binds its keys with kind and payload unchanged (C14 R7)', [('c04', 'C04', '^(R6/|R9/)'), ('c11', 'C11', '^(R2/|R4/)'), ('c14', 'C14', '^R7/')], 18)
    rep.rule('R1', 'macro templates equal the reference expansions; find_expander table; has() sets test')
    rep.rule('R2', 'fold loop: cond -> exit on false -> bind item -> step -> bind accumulator; result after the loop; errors abort; forward iteration')
    rep.rule('R3', '@not_strictly_false: Bool(b) -> b, anything else -> true')
    ref = json.load(open(os.path.join(HERE, 'tables/reference/macros.json')))
    for name, spec in ref['expansions'].items():
        fn, arity = spec['expander'], spec['arity']
        try:
            b, oks = expand(fx, fn, arity)
        except Unmodelled as e:
            rep.violation('R1', 'template/%s' % name, '-', 'expander not analysable (fail closed): %s' % e)
            continue
        rep.analysed(b, calls=sum(1 for _ in b.calls()))
        if len(oks) != 1:
            rep.violation('R1', 'template/%s' % name, b.loc(), 'expected exactly one successful expansion path for arity %d, found %d (fail closed)' % (arity, len(oks)))
            continue
        v = oks[0][1][1]
        comp = None
        if v[0] == 'ided' and v[1][0] == 'adt' and v[1][2] == 'Comprehension':
            comp = v[1][3]['0']
        if comp is None or comp[0] != 'adt':
            rep.violation('R1', 'template/%s' % name, b.loc(), 'expansion is not a comprehension node: %s' % render(v)[:200])
            continue
        got = {k: render(x) for k, x in comp[3].items()}
        for field, want in spec['template'].items():
            g = got.get(field)
            rep.check(g == want, 'R1', 'template/%s/%s' % (name, field), b.loc(), '%s = %s' % (field, g),
                      'macro %s: %s expands to `%s`, reference expansion is `%s`' % (name, field, g, want))
    find_expander_table(fx, rep, 'R1', ref)
    # has(): select.test = true
    hb = fx.body(MAC + 'has_macro_expander')
    rep.analysed(hb)
    st = [s for _, _, s in hb.stmts() if s['k'] == 'Assign' and any(e['k'] == 'Field' and e.get('name') == 'test' for e in s['place']['p'])]
    okk = len(st) == 1 and st[0]['rv']['k'] == 'Use' and st[0]['rv']['op'].get('val') is True
    sel = [s for _, _, s in hb.stmts() if s['k'] == 'Assign' and s['rv']['k'] == 'Aggregate' and s['rv'].get('variant') == 'Select' and s['rv'].get('adt', '').endswith('ast::Expr')]
    rep.check(okk and len(sel) == 1, 'R1', 'has/test=true', hb.loc(), 'has(e.f) -> Select{test: true}', 'has() does not set test=true on the select it returns')
    # ---------------- R2
    m = EvalModel(fx)
    ev, pv = m.b, m.pv
    rep.analysed(ev)
    sites = m.sites()
    nexts = [(bi, t) for bi, t in ev.calls() if F.norm_callee(t) == 'std::iter::Iterator::next']
    loops = []
    for bi, t in nexts:
        ty = t['arg_tys'][0]
        body_blocks = {x for x in ev.reachable_from(ev.succ(bi)) if bi in ev.reachable_from(ev.succ(x))} | {bi}
        cs = [s for s in sites if s['block'] in body_blocks and s['paths'] == ['Comprehension.loop_cond']]
        if cs:
            loops.append((bi, t, ty, body_blocks, cs))
    rep.check(len(loops) == 2, 'R2', 'two-fold-loops', ev.loc(), 'list loop and map-key loop', 'expected 2 comprehension loops (list, map keys), found %d' % len(loops))
    tbs = m.to_bool_sites()
    writes = [(bi, t) for bi, t in ev.calls() if F.norm_callee(t) in ('cel_interpreter::context::Context::add_variable_from_value', 'cel_interpreter::context::Context::add_variable')]
    for bi, t, ty, body, cs in loops:
        kind = 'list' if 'std::slice::Iter<' in ty else ('map-keys' if 'hash_map::Keys<' in ty else 'other')
        rep.check(kind in ('list', 'map-keys') and 'Rev<' not in ty, 'R2', '%s/forward-iterator' % kind, F.loc_of(t['span']), ty[:80], 'comprehension iterates with %s' % ty)
        # iterator ranges over the evaluated iter_range
        its = pv.of_operand(t['args'][0])
        okk = all(F.term_contains(x, lambda y: y[0] == 'call' and y[1] == 'cel_interpreter::objects::Value::resolve' and
                                  F.term_contains(y[2][0], lambda z: z[0] == 'f' and z[2] == 'iter_range')) for x in its)
        rep.check(okk, 'R2', '%s/ranges-over-iter_range' % kind, F.loc_of(t['span']), 'iterates the value of iter_range', 'loop does not iterate the value of iter_range')
        step = [s for s in sites if s['block'] in body and s['paths'] == ['Comprehension.loop_step']]
        okk = len(cs) == 1 and len(step) == 1
        rep.check(okk, 'R2', '%s/one-cond-one-step' % kind, F.loc_of(t['span']), 'one cond and one step per iteration', '%d cond / %d step sites in the loop' % (len(cs), len(step)))
        if not okk:
            continue
        c, s = cs[0], step[0]
        # cond dominated by next (Some edge) and dominates step
        rep.check(ev.dominates(bi, c['block']) and ev.dominates(c['block'], s['block']), 'R2', '%s/order-next-cond-step' % kind, c['loc'], 'next -> cond -> step', 'cond/step are not ordered next -> cond -> step')
        # exit on to_bool(cond) == false
        tb = [x for x in tbs if x['block'] in body and all(y[0] == 'call' and y[3] == c['block'] for y in x['terms'])]
        okk = len(tb) == 1
        if okk:
            r_false = reachable_under(ev, tb[0]['target'], {tb[0]['dest']: False})
            r_true = reachable_under(ev, tb[0]['target'], {tb[0]['dest']: True})
            # on false: neither the step nor another iteration
            okk = s['block'] not in r_false and bi not in r_false and s['block'] in r_true
        rep.check(okk, 'R2', '%s/false-cond-leaves-loop' % kind, c['loc'], 'to_bool(cond) == false leaves the loop before the step', 'a false loop condition does not stop the fold (elements after the deciding one are visited)')
        # bindings: iter_var <- item before step; accu_var <- step value after step
        w_in = [(wb, wt) for wb, wt in writes if wb in body]
        iv = [(wb, wt) for wb, wt in w_in if all(F.term_contains(x, lambda z: z[0] == 'f' and z[2] == 'iter_var') for x in pv.of_operand(wt['args'][1]))]
        av = [(wb, wt) for wb, wt in w_in if all(F.term_contains(x, lambda z: z[0] == 'f' and z[2] == 'accu_var') for x in pv.of_operand(wt['args'][1]))]
        okk = len(iv) == 1 and len(av) == 1 and len(w_in) == 2
        if okk:
            item = pv.of_operand(iv[0][1]['args'][2])
            okk = all(x[0] == 'iter' for x in item) and ev.dominates(c['block'], iv[0][0]) and ev.dominates(iv[0][0], s['block'])
        rep.check(okk, 'R2', '%s/iter_var-bound-to-item-before-step' % kind, c['loc'], 'iter_var = current item, bound between cond and step', 'iteration variable is not bound to the current item between cond and step')
        okk = len(av) == 1
        if okk:
            val = pv.of_operand(av[0][1]['args'][2])
            okk = all(x[0] == 'call' and x[3] == s['block'] for x in val) and ev.dominates(s['block'], av[0][0])
        rep.check(okk, 'R2', '%s/accu_var-bound-to-step-value' % kind, s['loc'], 'accu_var = value of loop_step', 'accumulator is not rebound to the value of loop_step')
        # errors abort: the Break edge of `?` after cond / step must not reach next or result
        for site, nm in ((c, 'cond'), (s, 'step')):
            tgt = ev.blocks[site['block']]['term']['target']
            brs = [(bb, tt) for bb, tt in ev.calls() if bb == tgt and F.norm_callee(tt) == 'std::ops::Try::branch']
            okk = len(brs) == 1
            if okk:
                sw = ev.blocks[brs[0][1]['target']]['term']
                okk = sw['k'] == 'SwitchInt'
                if okk:
                    brk = [a[1] for a in sw['arms'] if int(a[0]) == 1]
                    okk = bool(brk)
                    if okk:
                        r = ev.reachable_from([brk[0]])
                        res_sites = [x['block'] for x in sites if x['paths'] == ['Comprehension.result']]
                        okk = bi not in r and not any(x in r for x in res_sites)
            rep.check(okk, 'R2', '%s/error-in-%s-aborts' % (kind, nm), site['loc'], 'an error leaves the function', 'an error of loop_%s does not abort the macro' % nm)
    res = [s for s in sites if s['paths'] == ['Comprehension.result']]
    okk = len(res) == 1 and all(res[0]['block'] not in body for _, _, _, body, _ in loops) and all(res[0]['block'] in ev.reachable_from([bi]) for bi, _, _, _, _ in loops)
    rep.check(okk, 'R2', 'result-after-loop', res[0]['loc'] if res else ev.loc(), 'result evaluated once, after the loop', 'result is not evaluated once after the loop')
    # every non-error exit of the comprehension passes through the evaluation of `result`
    if res:
        rb = res[0]['block']
        entry_sites = [s_ for s_ in sites if s_['paths'] in (['Comprehension.accu_init'], ['Comprehension.iter_range'])]
        starts = [min(entry_sites, key=lambda x: x['block'])['block']] if entry_sites else []
        # arm entry: the switch target that dominates all comprehension sites
        arm_entry = None
        sw0 = ev.blocks[0]['term']
        if sw0['k'] == 'SwitchInt':
            for v, tg in sw0['arms']:
                if all(ev.dominates(tg, s_['block']) for s_ in sites if s_['paths'][0].startswith('Comprehension.')):
                    arm_entry = tg
        okk = arm_entry is not None
        bad = []
        if okk:
            without = ev.reachable_from([arm_entry], blocked={rb})
            for blk in sorted(without):
                t_ = ev.blocks[blk]['term']
                if t_['k'] == 'Call' and t_['dest']['l'] == 0 and not t_['dest']['p'] and F.norm_callee(t_) != 'std::ops::FromResidual::from_residual':
                    bad.append(F.loc_of(t_['span']))
                for s_ in ev.blocks[blk]['stmts']:
                    if s_['k'] == 'Assign' and s_['place']['l'] == 0 and not s_['place']['p'] and not (s_['rv']['k'] == 'Aggregate' and s_['rv'].get('variant') == 'Err'):
                        bad.append(F.loc_of(s_['span']))
            okk = not bad
        rep.check(okk, 'R2', 'every-normal-exit-evaluates-result', res[0]['loc'], 'the only non-error way out of the comprehension is the evaluation of `result`',
                  'the comprehension can return a value without evaluating `result` (at %s): e.g. exists_one over an empty range would yield the accumulator 0 instead of `@result == 1`' % bad)
    # accumulator initialised from accu_init
    w0 = [(wb, wt) for wb, wt in writes if not any(wb in body for _, _, _, body, _ in loops)]
    okk = len(w0) == 1 and all(F.term_contains(x, lambda z: z[0] == 'f' and z[2] == 'accu_var') for x in pv.of_operand(w0[0][1]['args'][1])) and \
        all(x[0] == 'call' and F.term_contains(x[2][0], lambda z: z[0] == 'f' and z[2] == 'accu_init') for x in pv.of_operand(w0[0][1]['args'][2]))
    rep.check(okk, 'R2', 'accu_var-initialised-from-accu_init', w0[0][1]['span'] and F.loc_of(w0[0][1]['span']) if w0 else ev.loc(), 'accu_var = value of accu_init', 'accumulator is not initialised with accu_init')
    # ---------------- R3
    arms = m.arms()
    a = arms.get('@not_strictly_false')
    if not a:
        raise F.Lost('@not_strictly_false arm not found')
    region = ev.reachable_from([a['entry']]) - ev.reachable_from([a['miss']])
    outs = []
    for blk in sorted(region):
        for s in ev.blocks[blk]['stmts']:
            if s['k'] == 'Assign' and s['place']['l'] == 0 and not s['place']['p'] and s['rv']['k'] == 'Aggregate':
                outs.append(pv.of_rvalue(s['rv'], pv.depth, ()))
    flat = sorted(F.term_str(x) for o in outs for x in o)
    okk = len(outs) == 2 and any('Bool{const(True)}' in x for x in flat) and any(re.search(r'Bool\{\(resolve\(.*args\[0\].*\) as Bool\)', x) for x in flat)
    rep.check(okk, 'R3', 'not_strictly_false/Bool(b)->b,else->true', a['loc'], ' | '.join(flat)[:160], '@not_strictly_false returns %s, expected Bool(b) -> b, anything else -> true' % flat)
    rep.floor('R1', 45)
    rep.floor('R2', 11)
