"""C15 — durations parse, print, add and compare exactly (claimed clauses R1-R6)."""
import re
from . import facts as F
from .absint import Interp, Unmodelled
from .intervals import check_float_to_int_casts
from .c08 import find_impl_body

LEVEL = 'other'
TRUSTED = ['rustc nightly (MIR, callee resolution)', "nom's documented grammar of number::complete::double (accepts inf, nan, exponents, signs)", "chrono: TimeDelta operator impls panic on overflow, checked_* return None; Neg cannot overflow (MIN == -MAX)",
           "Go time.Duration.String sign handling (the printer is a port)"]
EXPLANATION = ('R1: the wrapper that calls parse_duration uses the unparsed remainder in a test that leads to an error (or wraps the parser in all_consuming); R2: the number parser is not one of nom\'s float recognisers '
               '(they accept inf/nan/exponents/signs) but a digit recogniser followed by str::parse; R3: duration arithmetic in the operator impls and in the parser uses chrono checked_* (panicking operator impls are denied); '
               'R4: the printer takes the magnitude without a sign-losing i64->u64 `as` cast and never multiplies in a type that can overflow; R5: unit table ms/us/ns/h/m/s -> 1e6/1e3/1/3.6e12/6e10/1e9 ns with the two-letter units tried first; '
               'R6: the float->integer cast of a parsed term is NaN- and range-guarded. Digit-exact rendering and the round-trip duration(string(d)) == d are value-level and not decided.')
ASSUMPTIONS = ['comparison of durations is chrono TimeDelta Ord (exact nanosecond counts)', 'digit-by-digit agreement with Go and the round trip are not decided']

DUR = 'cel_interpreter::duration::'
CTOR = r'^chrono::TimeDelta::(try_)?(nanoseconds|microseconds|milliseconds|seconds|minutes|hours|days|weeks|new)$'
VALUE = 'cel_interpreter::objects::Value'
CHRONO_OP = re.compile(r'^<(&?chrono::[\w:]+)(<.*>)? as std::ops::(Add|Sub|Mul|Div|AddAssign|SubAssign)>::')
ALIASES = {'\u00b5s': ('Microsecond', 10 ** 3), '\u03bcs': ('Microsecond', 10 ** 3)}
UNITS = {'ms': ('Millisecond', 10 ** 6), 'us': ('Microsecond', 10 ** 3), 'ns': ('Nanosecond', 1), 'h': ('Hour', 3600 * 10 ** 9), 'm': ('Minute', 60 * 10 ** 9), 's': ('Second', 10 ** 9)}


def short_ty(t):
    return re.sub(r'<.*', '', t).rsplit('::', 1)[-1]


def opkey(t):
    ga = (t.get('callee') or {}).get('args', [])
    return '%s%s%s' % (short_ty(ga[0]) if ga else '?', {'add': '+', 'sub': '-', 'mul': '*', 'div': '/'}.get(t['callee']['path'].rsplit('::', 1)[-1], '?'), short_ty(ga[1]) if len(ga) > 1 else '?')


def instant_difference(t):
    ga = (t.get('callee') or {}).get('args', [])
    return t['callee']['path'].endswith('::sub') and len(ga) >= 2 and ga[0].startswith('chrono::DateTime<') and ga[1].startswith('chrono::DateTime<')


def safe_wide_mul(b, t):
    """128-bit multiplication of a widened <=64-bit value by a constant: cannot overflow"""
    ops = t['ops']
    if len(ops) != 2:
        return False
    consts = [o for o in ops if o['k'] == 'Const' and isinstance(o.get('val'), int) and abs(o['val']) < 2 ** 62]
    others = [o for o in ops if o['k'] != 'Const']
    if len(consts) != 1 or len(others) != 1:
        return False
    l = F.op_local(others[0])
    ds = b.defs().get(l, []) if l is not None else []
    if len(ds) != 1:
        return False
    bi, j, d = ds[0]
    if j == 'term':
        # i128::from(i64) / u128::from(u64)
        c = d.get('callee') or {}
        ga = c.get('args', [])
        return F.norm_callee(d) == 'std::convert::From::from' and len(ga) >= 2 and ga[0] in ('i128', 'u128') and ga[1] in ('i64', 'u64', 'i32', 'u32')
    rv = d['rv']
    return rv['k'] == 'Cast' and rv['kind'] == 'IntToInt' and rv['to'] in ('i128', 'u128') and rv['from'] in ('i64', 'u64', 'i32', 'u32')


def int_range(t):
    m = re.match(r'^([iu])(\d+|size)$', t)
    if not m:
        return None
    w = 64 if m.group(2) == 'size' else int(m.group(2))
    return (-(1 << (w - 1)), (1 << (w - 1)) - 1) if m.group(1) == 'i' else (0, (1 << w) - 1)


def lossy_int_cast(fr, to):
    a, b = int_range(fr), int_range(to)
    return bool(a and b) and not (b[0] <= a[0] and a[1] <= b[1])


def run(fx, rep):
    if 'chrono' not in fx.features('cel_interpreter'):
        rep.note('feature chrono disabled: durations do not exist in this configuration')
        return
    rep.rule('R1', 'the whole string must be consumed')
    rep.rule('R2', 'the number parser is decimal-only')
    rep.rule('R3', 'duration arithmetic cannot panic (checked chrono operations)')
    rep.rule('R4', 'printer: no sign-losing cast, no overflowing multiplication')
    rep.rule('R5', 'unit table and longest-match order')
    rep.rule('R6', 'float->int cast of a parsed term is guarded')
    rep.rule('R7', 'every unit suffix the printer emits is accepted by the parser')
    rep.rule('R8', 'a term is converted to nanoseconds in exact integer arithmetic (no binary floats)')
    rep.rule('R10', 'the sign is applied to a magnitude summed in a type that holds 2^63 ns (chrono TimeDelta), so string(MIN) parses back')
    rep.rule('R9', 'the power-of-ten divisor of the fraction is the length of the digit string that is parsed')
    # ---------------- R1
    wrappers = [b for b in fx.bodies.values() if b.crate == 'cel_interpreter' and b.raw['kind'] != 'Promoted' and not b.path.startswith(DUR)
                and any(F.norm_callee(t) == DUR + 'parse_duration' for _, t in b.calls())]
    rep.check(len(wrappers) >= 1, 'R1', 'wrapper-found', '-', '%d caller(s) of parse_duration' % len(wrappers), 'no caller of parse_duration found (anchor lost)')
    for w in wrappers:
        rep.analysed(w, calls=sum(1 for _ in w.calls()))
        pv = F.Prov(w)
        consumed = any(F.norm_callee(t) == 'nom::combinator::all_consuming' for _, t in w.calls())
        uses = []
        for bi, t in w.calls():
            for a in t['args']:
                for x in pv.of_operand(a):
                    if x[0] == 'f' and x[2] in (0, '0') and F.term_contains(x[1], lambda y: y[0] == 'call' and y[1] == DUR + 'parse_duration'):
                        uses.append((bi, t))
        tested = False
        for bi, t in uses:
            n = F.norm_callee(t)
            if n in ('core::str::<impl str>::is_empty', 'std::cmp::PartialEq::eq', 'std::cmp::PartialEq::ne', 'core::str::<impl str>::len'):
                # its result must control a branch one side of which returns an Err
                tgt = t['target']
                st = w.blocks[tgt]['term'] if tgt is not None else None
                if st and st['k'] == 'SwitchInt':
                    sides = w.succ(tgt)
                    errs = 0
                    for sd in sides:
                        reach = w.reachable_from([sd])
                        other = set().union(*[w.reachable_from([o]) for o in sides if o != sd]) if len(sides) > 1 else set()
                        only = reach - other
                        if any(s['k'] == 'Assign' and s['rv']['k'] == 'Aggregate' and s['rv'].get('variant') == 'Err' for blk in only for s in w.blocks[blk]['stmts']) or \
                           any(F.norm_callee(tt) in ('cel_interpreter::ExecutionError::function_error', 'cel_interpreter::functions::FunctionContext::error') for blk in only for tt in [w.blocks[blk]['term']] if tt['k'] == 'Call'):
                            errs += 1
                    tested = tested or errs >= 1
        cp = [c for c in fx.bodies.values() if c.path == DUR + 'parse_duration']
        consumed = consumed or any(F.norm_callee(t) == 'nom::combinator::all_consuming' for c in cp for _, t in c.calls())
        rep.check(consumed or tested, 'R1', 'remainder-checked/%s' % F.norm_path(w.path), w.loc(), 'unparsed remainder leads to an error',
                  '%s discards the unparsed remainder of parse_duration: duration(\'1sXYZ\') is accepted as 1s' % F.norm_path(w.path))
    # ---------------- R2 / R3 over duration.rs
    dbodies = [b for b in fx.bodies.values() if b.crate == 'cel_interpreter' and b.loc().startswith('interpreter/src/duration.rs') and b.raw['kind'] != 'Promoted' and not b.is_derived()]
    digit = False
    parse_f64 = False
    for b in dbodies:
        rep.analysed(b, calls=sum(1 for _ in b.calls()))
        for bi, t in b.calls():
            n = F.norm_callee(t) or ''
            if n.startswith('nom::number::'):
                rep.violation('R2', 'float-recogniser/%s/%s' % (F.norm_path(b.path).rsplit('::', 1)[-1], n.rsplit('::', 1)[-1]), F.loc_of(t['span']),
                              'number parsed by %s, which accepts inf, nan, exponents and a sign: duration(\'infs\'), duration(\'1e3s\') are accepted' % n)
            if n in ('nom::character::complete::digit1', 'nom::character::complete::digit0'):
                digit = True
            if n == 'core::str::<impl str>::parse' and t['callee']['args'][-1] in ('f64',):
                parse_f64 = True
            for a in t['args']:
                fn = a.get('fn') if a['k'] == 'Const' else None
                if fn and F.norm_path(fn.get('res') or fn['path']) == 'core::str::<impl str>::parse' and fn.get('args', [''])[-1] == 'f64':
                    parse_f64 = True
                if fn and F.norm_path(fn.get('res') or fn['path']) in ('nom::character::complete::digit1', 'nom::character::complete::digit0'):
                    digit = True
                if fn and F.norm_path(fn.get('res') or fn['path']).startswith('nom::number::'):
                    rep.violation('R2', 'float-recogniser/%s/%s' % (F.norm_path(b.path).rsplit('::', 1)[-1], fn['path'].rsplit('::', 1)[-1]), F.loc_of(t['span']),
                                  'number parsed by %s, which accepts inf, nan, exponents and a sign' % fn['path'])
            rc = F.resolved_callee(t) or ''
            if CHRONO_OP.match(rc) and not instant_difference(t):
                rep.violation('R3', 'panicking-op/%s/%s' % (F.norm_path(b.path).split('::')[-1] if '{closure' not in b.path else F.norm_path(b.path).split('::')[-2], opkey(t)), F.loc_of(t['span']),
                              'chrono operator %s panics on overflow; use the checked_* form and report an error' % rc)
    rep.check(digit, 'R2', 'decimal-recogniser', 'interpreter/src/duration.rs', 'digits recognised by nom digit1',
              'no decimal digit recogniser (nom digit1) found in duration.rs')
    # operator impls of Value
    for tr in ('std::ops::Add', 'std::ops::Sub'):
        b = find_impl_body(fx, tr, VALUE)
        rep.analysed(b)
        nchk = 0
        for bi, t in b.calls():
            rc = F.resolved_callee(t) or ''
            if CHRONO_OP.match(rc) and instant_difference(t):
                rep.ok('R3', 'instant-difference/%s' % tr.rsplit('::', 1)[-1], F.loc_of(t['span']), 'DateTime - DateTime: the difference of two chrono instants always fits a TimeDelta')
            elif CHRONO_OP.match(rc):
                rep.violation('R3', 'panicking-op/%s/%s' % (tr.rsplit('::', 1)[-1], opkey(t)), F.loc_of(t['span']),
                              'chrono operator %s in impl %s for Value panics on overflow (e.g. dmax + dmax, tmin - duration(\'1h\'))' % (rc, tr))
            if re.match(r'^chrono::TimeDelta::num_(nanoseconds|microseconds|milliseconds)$', F.norm_callee(t) or ''):
                rep.violation('R3', 'narrow-arithmetic/%s/%s' % (tr.rsplit('::', 1)[-1], F.norm_callee(t).rsplit('::', 1)[-1]), F.loc_of(t['span']),
                              'duration %s goes through %s: an i64 count cannot hold every TimeDelta (nor -MIN), so representable results such as -1ns - MIN are reported as overflow; use chrono\'s checked_add/checked_sub on the durations' % (tr.rsplit('::', 1)[-1], F.norm_callee(t)))
            if re.match(r'^chrono::(TimeDelta|DateTime)::checked_(add|sub)(_signed)?$', F.norm_callee(t) or ''):
                nchk += 1
                # None must become an error: result flows to ok_or / ok_or_else
                pv = F.Prov(b, transparent={})
                users = [F.norm_callee(t2) for b2, t2 in b.calls() if any(x[0] == 'call' and x[3] == bi for a_ in t2['args'] for x in pv.of_operand(a_))]
                rep.check(bool(users) and all(u in ('std::option::Option::ok_or', 'std::option::Option::ok_or_else') for u in users), 'R3',
                          'checked/%s/%s/%d' % (tr.rsplit('::', 1)[-1], F.norm_callee(t).rsplit('::', 1)[-1], nchk), F.loc_of(t['span']), 'None -> error', 'result of %s is not turned into an error (%s)' % (F.norm_callee(t), users))
    # ---------------- R4
    fb = fx.body(DUR + 'format_duration')
    for b in fx.bodies_with_closures(fb.path):
        for bi, j, s in b.stmts():
            if s['k'] == 'Assign' and s['rv']['k'] == 'Cast' and s['rv']['kind'] == 'IntToInt' and s['rv']['from'] in ('i64', 'i128', 'i32', 'isize') and s['rv']['to'].startswith('u') and s['rv']['op']['k'] != 'Const':
                rep.violation('R4', 'sign-losing-cast/%s->%s' % (s['rv']['from'], s['rv']['to']), F.loc_of(s['span']),
                              'the printer converts a possibly negative %s to %s with `as`: string(duration(\'-2s\')) renders garbage (Go negates first; use unsigned_abs)' % (s['rv']['from'], s['rv']['to']))
        for bi, t in b.terms('Assert'):
            if t['msg'].startswith('Overflow(Mul)') and not all(o['k'] == 'Const' for o in t['ops']) and not safe_wide_mul(b, t):
                rep.violation('R4', 'overflowing-mul', F.loc_of(t['span']), 'multiplication in the printer can overflow (panics in debug, wraps in release) for durations beyond 2^63 ns')
    mags = [t for b in fx.bodies_with_closures(fb.path) for bi, t in b.calls() if re.match(r'^core::num::<impl i\d+>::(unsigned_abs|abs|wrapping_abs|checked_abs|saturating_abs)$', F.norm_callee(t) or '')]
    rep.check(len(mags) >= 1, 'R4', 'magnitude-by-unsigned_abs', fb.loc(), 'magnitude = unsigned_abs()', 'printer does not take the magnitude with unsigned_abs')
    # the sign must be read off the very total whose magnitude is printed (a part such as num_seconds() is 0 for -0.5s)
    fpv = F.Prov(fb)
    recv = set()
    for t in mags:
        recv |= set(fpv.of_operand(t['args'][0]))
    signs = []
    for bi, j, st in fb.stmts():
        if st['k'] == 'Assign' and st['rv']['k'] == 'BinaryOp' and st['rv']['op'] in ('Lt', 'Gt', 'Le', 'Ge') and st['rv'].get('lty', '').startswith('i'):
            l, r = st['rv']['l'], st['rv']['r']
            var = l if r['k'] == 'Const' and r.get('val') == 0 else (r if l['k'] == 'Const' and l.get('val') == 0 else None)
            if var is not None:
                signs.append((st, set(fpv.of_operand(var))))
    for bi, t in fb.calls():
        if re.match(r'^core::num::<impl i\d+>::(is_negative|is_positive|signum)$', F.norm_callee(t) or ''):
            signs.append((t, set(fpv.of_operand(t['args'][0]))))
    okk = len(mags) == 1 and len(signs) >= 1 and all(ts & recv for _, ts in signs)
    rep.check(okk, 'R4', 'sign-and-magnitude-from-one-total', fb.loc(), 'the value tested against 0 is the one whose unsigned_abs() is printed',
              'the printer tests %s against 0 but prints the magnitude of %s (%d unsigned_abs call(s)): a part of the duration has not the sign of the whole (num_seconds() is 0 for -0.5s), so string(duration(\'-1.5ms\')) loses its minus' %
              (sorted(F.term_str(x)[:60] for _, ts in signs for x in ts)[:2], sorted(F.term_str(x)[:60] for x in recv)[:2], len(mags)))
    # ---------------- R5
    ub = fx.body(DUR + 'Unit::nanos')
    unit_adt = fx.adt(DUR + 'Unit')
    nan = {}
    for v in unit_adt['variants']:
        it = Interp(ub, {})
        try:
            res = it.run({1: ('refval', ('adt', DUR + 'Unit', v['name'], {}))})
        except Unmodelled as e:
            res = []
        vals = {r[1] for r in res if r[1][0] == 'const'}
        nan[v['name']] = next(iter(vals))[1] if len(vals) == 1 else None
    pu = fx.body(DUR + 'parse_unit')
    rep.analysed(pu)
    ppv = F.Prov(pu, transparent={})
    alts = [(bi, t) for bi, t in pu.calls() if F.norm_callee(t) == 'nom::branch::alt']
    order = []
    if len(alts) == 1:
        for term in ppv.of_operand(alts[0][1]['args'][0]):
            if term[0] == 'agg' and term[1] == 'Tuple':
                for el in term[2]:
                    text = variant = None
                    if el[0] == 'call' and el[1] == 'nom::combinator::map':
                        rec, clo = el[2][0], el[2][1]
                        if rec[0] == 'call' and rec[1] in ('nom::bytes::complete::tag', 'nom::character::complete::char') and rec[2][0][0] == 'const':
                            text = rec[2][0][1]
                        if clo[0] == 'agg' and clo[1].startswith('closure:'):
                            cb = fx.bodies.get(clo[1][len('closure:'):])
                            if cb:
                                ag = [s for _, _, s in cb.stmts() if s['k'] == 'Assign' and s['rv']['k'] == 'Aggregate' and s['rv'].get('adt') == DUR + 'Unit']
                                if len(ag) == 1:
                                    variant = ag[0]['rv']['variant']
                    order.append((text, variant))
    got = {t: (v, nan.get(v)) for t, v in order}
    for text, (variant, n) in UNITS.items():
        rep.check(got.get(text) == (variant, n), 'R5', 'unit/%s' % text, pu.loc(), '%s -> %s = %d ns' % (text, variant, n), 'unit %r maps to %s, expected %s = %d ns' % (text, got.get(text), variant, n))
    texts = [t for t, _ in order]
    shadowed = [(texts[i], texts[j]) for i in range(len(texts)) for j in range(i + 1, len(texts)) if texts[i] and texts[j] and texts[j].startswith(texts[i])]
    extra = [t for t in texts if t not in UNITS and t not in ALIASES]
    rep.check(bool(texts) and not shadowed and not extra and None not in texts, 'R5', 'longest-match-order', pu.loc(), 'alternatives tried in order %s' % texts,
              'unit alternatives %s: %s' % (texts, '; '.join(['%r is tried before %r and shadows it' % p for p in shadowed] + ['%r is not a CEL duration unit' % t for t in extra]) or 'not recognised'))
    for t in texts:
        if t in ALIASES:
            variant, n = ALIASES[t]
            rep.check(got.get(t) == (variant, n), 'R5', 'unit/%s' % t, pu.loc(), '%s -> %s = %d ns' % (t, variant, n), 'unit %r maps to %s, expected %s = %d ns' % (t, got.get(t), variant, n))
    # ---------------- R7: bytes the printer stores into its buffer
    nonascii = []
    for b in fx.bodies_with_closures(fb.path):
        for bi, j, st in b.stmts():
            if st['k'] == 'Assign' and st['rv']['k'] == 'Use' and st['rv']['op']['k'] == 'Const' and any(pr.get('k') == 'Index' for pr in st['place'].get('p', [])):
                v = st['rv']['op'].get('val')
                if isinstance(v, int) and v >= 0x80 and st['rv']['op'].get('ty') == 'u8':
                    nonascii.append((bi, j, v, F.loc_of(st['span'])))
    if nonascii:
        seq = bytes(v for _, _, v, _ in sorted(nonascii))
        dec = None
        for cand in (seq[::-1], seq):
            try:
                dec = cand.decode('utf-8')
                break
            except UnicodeDecodeError:
                pass
        if dec is None:
            rep.violation('R7', 'printer-non-utf8', nonascii[0][3], 'the printer stores the bytes %s, which are not UTF-8 in either order' % seq.hex())
        else:
            for ch in dec:
                t = ch + 's'
                rep.check(got.get(t) == ('Microsecond', 1000), 'R7', 'printed-unit-parsed/U+%04X' % ord(ch), nonascii[0][3], 'printer emits %r; parse_unit accepts %r as Microsecond' % (t, t),
                          'format_duration prints the unit %r but parse_unit has no such alternative (%s): duration(string(duration(\'1500ns\'))) is an error' % (t, got.get(t)))
    else:
        rep.note('R7: the printer stores no non-ASCII byte; its ASCII units are covered by R5')
    # ---------------- R6
    n = 0
    for b in dbodies:
        if F.norm_path(b.path).startswith(DUR + 'format_'):
            continue
        n += check_float_to_int_casts(b, rep, 'R6')
    # ---------------- R8
    n8 = 0
    for b in dbodies:
        fn = F.norm_path(b.path)
        if fn.startswith(DUR + 'format_'):
            continue
        n8 += 1
        short = re.sub(r'::\{closure#\d+\}', '/closure', fn[len(DUR):])
        fl = sorted({d['ty'] for d in b.locals if re.search(r'\bf(32|64)\b', d['ty'])})
        rep.check(not fl, 'R8', 'integer-only/%s' % short, b.loc(), 'no float-typed value',
                  '%s holds a binary float (%s): 8.2 and 1.005 have no exact f64, so duration(\'8.2s\') != duration(\'8200ms\')' % (fn, ', '.join(fl)[:160]))
        # a wrapping `as` whose result is handed straight to a TimeDelta constructor
        cpv = F.Prov(b, transparent={})
        for bi, t in b.calls():
            if not re.match(CTOR, F.norm_callee(t) or ''):
                continue
            for a in t['args']:
                for x in cpv.of_operand(a):
                    if x[0] == 'cast' and x[1].startswith('IntToInt:'):
                        fr, to = x[1].split(':', 1)[1].split('->')
                        if lossy_int_cast(fr, to) and x[2][0] != 'const':
                            rep.violation('R8', 'lossy-int-cast/%s/%s->%s' % (short, fr, to), F.loc_of(t['span']),
                                          'the count handed to %s is produced by `as %s` from a %s: an out-of-range term wraps instead of being reported (use try_from)' % (F.norm_callee(t).rsplit('::', 1)[-1], to, fr))
    # ---------------- R9
    td = [b for b in dbodies if not F.norm_path(b.path).startswith(DUR + 'format_')]
    npow = 0
    for b in td:
        pv = F.Prov(b)
        calls = dict(b.calls())
        for bi, t in b.calls():
            if not re.match(r'^core::num::<impl [iu]\d+>::(checked_|wrapping_|saturating_)?pow$', F.norm_callee(t) or ''):
                continue
            base = pv.of_operand(t['args'][0])
            if not any(x == ('const', 10) for x in base):
                continue
            npow += 1
            exps = pv.of_operand(t['args'][1])
            def outer_len(term):
                # strip conversions around str::len
                while True:
                    if term[0] == 'call' and term[1] == 'core::str::<impl str>::len':
                        return term[2][0]
                    if term[0] == 'call' and len(term[2]) == 1:
                        term = term[2][0]
                    elif term[0] == 'cast':
                        term = term[-1] if isinstance(term[-1], tuple) else term[1]
                    else:
                        return None
            lens = {outer_len(e) for e in exps}
            if None in lens:
                lens = set()
            # numerators divided by this power
            nums = set()
            for bj, t2 in b.calls():
                if re.match(r'^core::num::<impl [iu]\d+>::(checked_)?div(_euclid)?$', F.norm_callee(t2) or '') and \
                   any(x[0] == 'call' and x[3] == bi for x in pv.of_operand(t2['args'][1])):
                    for x in pv.of_operand(t2['args'][0]):
                        F.term_contains(x, lambda y: nums.add(y[2][0]) if y[0] == 'call' and y[1] == 'core::str::<impl str>::parse' else False)
            for bj, j, st in b.stmts():
                if st['k'] == 'Assign' and st['rv']['k'] == 'BinaryOp' and st['rv']['op'] in ('Div',):
                    if any(x[0] == 'call' and x[3] == bi for x in pv.of_operand(st['rv']['r'])):
                        for x in pv.of_operand(st['rv']['l']):
                            F.term_contains(x, lambda y: nums.add(y[2][0]) if y[0] == 'call' and y[1] == 'core::str::<impl str>::parse' else False)
            def prefix_of_param(term):
                if term[0] == 'param':
                    return True
                return term[0] == 'call' and term[1] in ('core::str::<impl str>::get', 'core::str::traits::<impl std::ops::Index<I> for str>::index', 'std::ops::Index::index') and term[2][0][0] == 'param' and \
                    any(term[2][1][0] == 'agg' and term[2][1][1].startswith(k) for k in ('std::ops::RangeTo', 'std::ops::RangeToInclusive'))
            good = bool(lens) and bool(nums) and lens == nums and all(prefix_of_param(x) for x in lens)
            rep.check(good, 'R9', 'scale-agreement/%s' % F.norm_path(b.path)[len(DUR):], F.loc_of(t['span']), '10^len(D) divides parse(D)*unit for the same prefix D of the fraction digits',
                      'the fraction is scaled by 10^len(%s) but the digits parsed are %s: both must be the same untrimmed prefix of the fraction text (else 1.05s == 1.5s or 1.50s == 1.05s)' % (sorted(map(str, lens))[:2], sorted(map(str, nums))[:2]))
    if not npow:
        rep.note('R9: no power-of-ten scale in the term conversion; rule not applicable to this shape')
    # ---------------- R10
    n10 = 0
    for b in fx.bodies_with_closures(DUR + 'parse_duration'):
        pv = F.Prov(b)
        for bi, t in b.calls():
            if F.norm_callee(t) == 'std::ops::Neg::neg' or re.match(r'^core::num::<impl i\d+>::(checked_|wrapping_|overflowing_)?neg$', F.norm_callee(t) or ''):
                ty = t['arg_tys'][0]
                n10 += 1
                rebuilt = [x for x in pv.of_operand(t['args'][0]) if F.term_contains(x, lambda y: (y[0] == 'call' and re.match(CTOR, y[1] or '')) or
                                                                                                    (y[0] == 'const' and isinstance(y[1], tuple) and len(y[1]) > 1 and y[1][0] == 'fn' and re.match(CTOR, F.norm_path(str(y[1][1])))))]
                narrow = ty in ('i64', 'i32', 'isize')
                rep.check(not rebuilt and not narrow, 'R10', 'sign-after-wide-sum/%s' % short_ty(ty), F.loc_of(t['span']), 'the negated magnitude is the checked TimeDelta sum of the terms',
                          'the magnitude that is negated %s: 2^63 ns does not fit, so the canonical string of the most negative duration (-2562047h47m16.854775808s) is rejected' %
                          ('is an %s' % ty if narrow else 'was rebuilt from a 64-bit count'))
        for bi, j, st in b.stmts():
            if st['k'] == 'Assign' and st['rv']['k'] == 'UnaryOp' and st['rv']['op'] == 'Neg':
                lt = b.locals[st['place']['l']]['ty'] if not st['place'].get('p') else ''
                if lt in ('i64', 'i32', 'isize'):
                    n10 += 1
                    rep.violation('R10', 'sign-after-wide-sum/%s' % lt, F.loc_of(st['span']), 'the magnitude is negated as an %s: 2^63 ns does not fit, so the most negative duration cannot be parsed back' % lt)
    rep.check(n10 >= 1, 'R10', 'negation-found', 'interpreter/src/duration.rs', 'parse_duration applies the sign by a negation', 'no negation found in parse_duration (anchor lost): how is the sign applied?')
    # ---------------- R11 every term has a unit
    rep.rule('R11', 'a term is a number followed by a unit: no successful return of the term parser bypasses parse_unit')
    tb = fx.body(DUR + 'parse_number_unit')
    pus = [bi for bi, t in tb.calls() if F.norm_callee(t) == DUR + 'parse_unit']
    oks = [bi for bi, j, st in tb.stmts() if st['k'] == 'Assign' and st['rv']['k'] == 'Aggregate' and st['rv'].get('variant') == 'Ok' and (st['rv'].get('adt') or '').endswith('Result')]
    okk = len(pus) == 1 and bool(oks) and all(tb.dominates(pus[0], o) for o in oks)
    rep.check(okk, 'R11', 'unit-on-every-successful-term', tb.loc(), 'parse_unit dominates every Ok(..) of parse_number_unit',
              'parse_number_unit can return Ok without having parsed a unit (%d parse_unit call(s), %d Ok site(s)): duration(\'1h0\') / a missing unit is accepted' % (len(pus), len(oks)))
    rep.floor('R5', 7)
    rep.floor('R8', 3)
    rep.floor('R3', 5)
