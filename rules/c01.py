"""C01 — compiling any source text ends in a program or positioned errors."""
import re
from . import facts as F
from . import panics as P
from .grammar import Grammar
from . import atn as A
from .intervals import mandatory_edges

LEVEL = 'other'
TRUSTED = ['rustc nightly (MIR, impl tables)', 'antlr4rust and the ANTLR-generated lexer/parser apart from the facts extracted here (every recovery reports to the listeners; the default Visitable::accept of an error context is unreachable!())',
           'tables/panic_ledger.json (family parse)']
EXPLANATION = ('R1: Parser::parse returns Ok only on the edge where the merged error vector (listener errors taken from the shared Rc<RefCell<Vec>> extended with the visitor\'s own errors) is empty; R2: an error listener carrying that Rc is installed on the lexer '
               'and on the parser before start() runs, syntax_error pushes on every path except for WHITESPACE offending tokens, and the lexer ATN shows the only lexer action (channel HIDDEN) sits on WHITESPACE/COMMENT so such a token never reaches the parser; '
               'R3: the tree walk is control dependent on the listener vector being empty after start() (error contexts implement Visitable with the panicking default); R4: the start rule consumes EOF in the ATN and the generated start() calls match_token(EOF) before returning; '
               'R5: every placeholder node (IdedExpr::default / Expr::default) is produced after an error was recorded or on an edge that exists only for trees with syntax errors (enumerated); R6: every panic edge of the hand-written parser code is audited; '
               'R7: the rendering of a ParseError starts with a non-empty literal. Hangs, stack exhaustion and the line/column values (supplied by the ANTLR runtime) are not decided.')
ASSUMPTIONS = ['absence of hangs and stack exhaustion is not decided (depth is a run-time quantity)', 'line/column values come from the ANTLR runtime token positions and are not decided',
               'antlr4rust reports every syntax error it recovers from to the installed listeners']

# every hand-written source file of the parser crate (also ones added later); gen/ is the ANTLR output, trusted apart from the extracted facts
PARSER_FILES = re.compile(r'^antlr/src/(?!gen/)')
PARSE = 'cel_parser::parser::Parser::parse'
ERROR_CONTEXTS = ['UnaryContext', 'MemberContext', 'PrimaryContext', 'EscapeIdentContext', 'LiteralContext']


def t_strs(pv, o):
    return sorted(F.term_str(x) for x in pv.of_operand(o))


def edge_conditions(b, pv, block):
    """[(term, truth)] for every branch every path to `block` must take"""
    out = []
    for s, l, taken in mandatory_edges(b, block):
        if taken == ('eq', 1) or taken == ('not-in', [0]):
            truth = True
        elif taken == ('eq', 0) or taken == ('not-in', [1]):
            truth = False
        else:
            continue
        for term in pv.of_local(l):
            t = term
            tr = truth
            while t[0] == 'unop' and t[1] == 'Not':
                t = t[2]
                tr = not tr
            out.append((t, tr))
    return out


def run(fx, rep):
    rep.rule('R1', 'Ok is returned only when the merged error vector is empty')
    rep.rule('R2', 'error listeners installed before parsing; syntax_error records; lexer hidden-channel exemption')
    rep.rule('R3', 'the visitor never walks a tree with syntax errors')
    rep.rule('R4', 'the start rule consumes EOF')
    rep.rule('R5', 'placeholders are returned only after an error was recorded (or on syntax-error-only edges)')
    rep.rule('R6', 'audited panic edges of the hand-written parser')
    rep.rule('R7', 'an error renders to non-empty text')
    rep.rule('P1', 'producer rule behind the ledger: find_expander hands each expander exactly the receiver/arity combinations its unreachable!() arms and remove/unwrap calls assume')
    from .c10 import find_expander_table
    find_expander_table(fx, rep, 'P1')
    rep.rule('P2', 'producer rules behind the ledger: add_term appends one term and one operator; a prefix alternative has at least one operator token')
    ab = [x for x in fx.bodies.values() if F.norm_path(x.path) == 'cel_parser::parser::LogicManager::add_term']
    if len(ab) != 1:
        raise F.Lost('LogicManager::add_term not found')
    apv = F.Prov(ab[0])
    pushes = sorted('|'.join(sorted(F.term_str(x) for x in apv.of_operand(t['args'][0]))) for bi, t in ab[0].calls() if F.norm_callee(t) == 'std::vec::Vec::push')
    uncond = all(ab[0].dominates(bi, rb) for bi, t in ab[0].calls() if F.norm_callee(t) == 'std::vec::Vec::push' for rb, _ in ab[0].terms('Return'))
    rep.check(pushes == ['arg1.ops', 'arg1.terms'] and uncond, 'P2', 'add_term/one-term-one-op', ab[0].loc(), 'terms.push and ops.push on every path',
              'add_term pushes to %s%s: terms.len() == ops.len() + 1 no longer holds and LogicManager::expr / balanced_tree index out of bounds' % (pushes, '' if uncond else ' (conditionally)'))
    from .grammar import Grammar
    gp = Grammar(fx, 'parser')
    for p in gp.paths('unary', limit=1):
        toks = [next(iter(x[1])) for x in p if x[0] == 'tok' and len(x[1]) == 1]
        rules = [x[1] for x in p if x[0] == 'rule']
        okk = rules == ['member'] and p[-1][0] == 'rule' and len(toks) == len(p) - 1 and len(set(toks)) <= 1
        rep.check(okk, 'P2', 'unary/%s' % ('+'.join(toks) or 'member'), 'gen/celparser.rs', 'alternative %s' % (toks + rules),
                  'unary alternative %s is not (op)+ member / member: ctx.ops[0] in visit_LogicalNot / visit_Negate may be out of bounds' % (p,))
    b = fx.body(PARSE)
    rep.analysed(b, calls=sum(1 for _ in b.calls()))
    pv = F.Prov(b)
    # ---------------- R1
    takes = [(bi, t) for bi, t in b.calls() if F.norm_callee(t) == 'std::cell::RefCell::take']
    ext = [(bi, t) for bi, t in b.calls() if F.norm_callee(t) == 'std::iter::Extend::extend']
    emp = [(bi, t) for bi, t in b.calls() if F.norm_callee(t) == 'std::vec::Vec::is_empty']
    final = None
    okk = len(takes) == 1 and len(ext) == 1
    if okk:
        tb = takes[0][0]
        okk = all(x[0] == 'call' and x[3] == tb for x in pv.of_operand(ext[0][1]['args'][0])) and t_strs(pv, ext[0][1]['args'][1]) == ['arg1.errors']
        for bi, t in emp:
            if all(x[0] == 'call' and x[3] == tb for x in pv.of_operand(t['args'][0])) and b.dominates(ext[0][0], bi):
                final = (bi, t)
        okk = okk and final is not None
    rep.check(okk, 'R1', 'merged-error-vector', b.loc(), 'errors = listener errors (taken) extended with self.errors, then tested', 'parse() does not merge listener errors and visitor errors before testing for emptiness')
    if final:
        fbi, ft = final
        sw = b.blocks[ft['target']]['term']
        okk = sw['k'] == 'SwitchInt' and F.op_local(sw['discr']) == ft['dest']['l']
        if okk:
            tt = [a[1] for a in sw['arms'] if int(a[0]) == 0]
            f_t = tt[0] if tt else sw['otherwise']
            t_t = sw['otherwise'] if f_t != sw['otherwise'] else [a[1] for a in sw['arms'] if int(a[0]) != 0][0]
            nonempty_reach = b.reachable_from([f_t])
            # on the non-empty side the returned value must be an Err aggregate; an Ok-capable return (map_err of r) only on the empty side
            oks = [bi for bi, t in b.calls() if t['dest']['l'] == 0 and not t['dest']['p']]
            aggs = [(bi, s) for bi, j, s in b.stmts() if s['k'] == 'Assign' and s['place']['l'] == 0 and not s['place']['p']]
            bad = [bi for bi in oks if bi in nonempty_reach and bi not in b.reachable_from([t_t])]
            bad += [bi for bi, s in aggs if bi in nonempty_reach and bi not in b.reachable_from([t_t]) and not (s['rv']['k'] == 'Aggregate' and s['rv'].get('variant') == 'Err')]
            okk = not bad and any(s['rv']['k'] == 'Aggregate' and s['rv'].get('variant') == 'Err' for bi, s in aggs if bi in nonempty_reach)
            # every return of the function is after the test
            okk = okk and all(b.dominates(fbi, r) for r, _ in b.terms('Return'))
        rep.check(okk, 'R1', 'Ok-only-when-empty', F.loc_of(ft['span']), 'non-empty error vector -> Err(ParseErrors)', 'parse() can return a program although errors were recorded')
    # ---------------- R2
    rcs = [(bi, t) for bi, t in b.calls() if F.norm_callee(t) in ('std::rc::Rc::new',)]
    start = [(bi, t) for bi, t in b.calls() if (F.norm_callee(t) or '').endswith('CELParser::start')]
    lst = [(bi, t) for bi, t in b.calls() if (F.norm_callee(t) or '').endswith('::add_error_listener')]
    okk = len(start) == 1 and len(lst) == 2 and len(takes) == 1
    if okk:
        kinds = sorted('lexer' if 'Lexer' in t['callee']['path'] else 'parser' for _, t in lst)
        okk = kinds == ['lexer', 'parser'] and all(b.dominates(bi, start[0][0]) for bi, _ in lst)
        for bi, t in lst:
            ts = pv.of_operand(t['args'][1])
            okk = okk and all(F.term_contains(x, lambda y: y[0] == 'agg' and y[1].endswith('ParserErrorListener::ParserErrorListener')) for x in ts)
        # both listeners and the final take share the same Rc
        src = t_strs(pv, takes[0][1]['args'][0])
        for bi, t in lst:
            okk = okk and all(any(s_ in F.term_str(x) for s_ in src) for x in pv.of_operand(t['args'][1]))
    rep.check(okk, 'R2', 'listeners-installed-before-start', b.loc(), 'lexer and parser listeners share the error vector, installed before start()', 'error listeners are not both installed (with the shared vector) before start()')
    rm = [(bi, t) for bi, t in b.calls() if (F.norm_callee(t) or '').endswith('::remove_error_listeners')]
    rep.check(all(any(b.dominates(rb, lb) for lb, _ in lst) for rb, _ in rm), 'R2', 'console-listener-removed-first', b.loc(), 'remove_error_listeners precedes add_error_listener', 'listeners are removed after being added')
    se = [x for x in fx.bodies.values() if x.crate == 'cel_parser' and x.path.endswith('::syntax_error') and 'ParserErrorListener' in x.path]
    okk = len(se) == 1
    if okk:
        sb = se[0]
        rep.analysed(sb)
        spv = F.Prov(sb)
        pushes = [(bi, t) for bi, t in sb.calls() if F.norm_callee(t) == 'std::vec::Vec::push']
        okk = len(pushes) == 1
        if okk:
            # returns not passing the push must be guarded by token type == WHITESPACE
            rets = [r for r, _ in sb.terms('Return')]
            nopush = sb.reachable_from([0], blocked={pushes[0][0]})
            skipping = [r for r in rets if r in nopush]
            okk = bool(skipping)
            g = Grammar(fx, 'lexer')
            ws = g.tok_idx.get('WHITESPACE')
            # every branch in syntax_error is either the Option match on the offending symbol or the WHITESPACE test
            tests = []
            for sbi in sorted(sb.live_blocks()):
                st = sb.blocks[sbi]['term']
                if st['k'] == 'SwitchInt':
                    tests += [F.term_str(x) for x in spv.of_operand(st['discr'])]
            okk = okk and bool(tests) and all(('get_token_type' in c and ('const(%s)' % ws) in c) or c.startswith('discr(arg') for c in tests) and any('get_token_type' in c for c in tests)
    rep.check(okk, 'R2', 'syntax_error-records', se[0].loc() if se else '-', 'every syntax error is pushed, except for WHITESPACE offending tokens', 'syntax_error does not record every error (only WHITESPACE tokens may be skipped)')
    gl = Grammar(fx, 'lexer')
    acts = gl.atn.lexer_actions
    act_rules = sorted({gl.rules[e['rule']] for e in gl.atn.edges if e['type'] == A.ACTION})
    rep.check(acts == [{'type': 0, 'd1': 1, 'd2': 0}] and act_rules == ['COMMENT', 'WHITESPACE'], 'R2', 'lexer/hidden-channel-only-for-whitespace-and-comments', 'gen/cellexer.rs',
              'only lexer action: channel(HIDDEN) on %s' % act_rules, 'lexer actions %s on rules %s: the WHITESPACE exemption of syntax_error is no longer justified' % (acts, act_rules))
    # ---------------- R3
    visits = [(bi, t) for bi, t in b.calls() if (F.norm_callee(t) or '').endswith('ParseTreeVisitorCompat::visit')]
    okk = len(visits) == 1 and len(start) == 1
    why = 'expected one tree walk in parse()'
    if okk:
        vbi = visits[0][0]
        okk = b.dominates(start[0][0], vbi)
        conds = edge_conditions(b, pv, vbi)
        guard = False
        src = t_strs(pv, takes[0][1]['args'][0]) if takes else []
        for term, truth in conds:
            if term[0] == 'call' and term[1] == 'std::vec::Vec::is_empty' and truth and b.dominates(start[0][0], term[3]):
                ts = F.term_str(term[2][0])
                if any(s_ in ts for s_ in src):
                    guard = True
        okk = okk and guard
        why = 'the tree is walked even when the listeners recorded syntax errors: error contexts (%s) have no visitor (unreachable!()), so e.g. compile("1 +") panics' % ', '.join(ERROR_CONTEXTS)
    rep.check(okk, 'R3', 'visit-only-error-free-trees', F.loc_of(visits[0][1]['span']) if visits else b.loc(), 'visit(tree) only on the edge where the listener vector is empty after start()', why)
    # error contexts use the panicking default accept
    for c in ERROR_CONTEXTS:
        imps = [i for i in fx.impls(crate='cel_parser') if (i.get('trait') or '').endswith('Visitable') and re.search(r'::%s(Ext)?<' % c, i['self'])]
        for i in imps:
            rep.ok('R3', 'error-context/%s/%s' % (c, 'default-accept' if 'accept' not in i['items'] else 'own-accept'), F.loc_of(i['span']),
                   'impl Visitable for %s provides %s' % (c, i['items'] or 'nothing (library default)'))
    # ---------------- R4
    gp = Grammar(fx, 'parser')
    ps = gp.paths('start')
    rep.check(all(p and p[-1] == ('tok', frozenset(['EOF'])) for p in ps) and bool(ps), 'R4', 'atn/start-ends-with-EOF', 'gen/celparser.rs', 'start: expr EOF', 'the start rule does not end with EOF')
    sc = [x for x in fx.bodies.values() if x.crate == 'cel_parser' and re.search(r'CELParser::<.*>::start::\{closure#0\}$', x.path)]
    okk = len(sc) == 1
    if okk:
        s_ = sc[0]
        rep.analysed(s_)
        mt = [(bi, t) for bi, t in s_.calls() if (F.norm_callee(t) or '').endswith('match_token') and -1 in [F.op_const(a) for a in t['args']]]
        okk = len(mt) == 1
        if okk:
            oks = [bi for bi, j, s2 in s_.stmts() if s2['k'] == 'Assign' and s2['place']['l'] == 0 and s2['rv']['k'] == 'Aggregate' and s2['rv'].get('variant') == 'Ok']
            okk = bool(oks) and all(s_.dominates(mt[0][0], o) for o in oks)
    rep.check(okk, 'R4', 'rust/start-matches-EOF', sc[0].loc() if sc else '-', 'match_token(EOF) dominates the Ok return of start()', 'generated start() can return Ok without matching EOF')
    # ---------------- R5
    n_ph = 0
    allowed = {
        'cel_parser::parser::Parser::report_parse_error': 'the recording function itself builds the placeholder',
        'cel_parser::parser::Parser::new': 'initial value of the visitor\'s temporary result slot',
        'visit_GlobalCall': 'ctx.id is None only for a GlobalCall context without identifier, i.e. a tree with syntax errors (never walked, R3)',
    }
    for vb in fx.bodies.values():
        if vb.crate != 'cel_parser' or not PARSER_FILES.match(vb.loc()) or vb.raw['kind'] == 'Promoted' or vb.is_derived():
            continue
        vpv = None
        reports = [bi for bi, t in vb.calls() if re.search(r'Parser::(report_error|report_parse_error)$', F.norm_callee(t) or '')]
        for bi, t in vb.calls():
            n = F.norm_callee(t) or ''
            is_ph = n == 'std::default::Default::default' and any(a.endswith('ast::IdedExpr') or a.endswith('ast::Expr') for a in (t['callee'].get('args') or []))
            if not is_ph:
                continue
            n_ph += 1
            fn = F.norm_path(vb.path)
            short = fn.rsplit('::', 1)[-1]
            key = 'placeholder/%s/%d' % (short, sum(1 for k in getattr(rep, 'inst', {}) if k[0] == 'R5' and k[1].startswith('placeholder/%s/' % short)))
            if fn in allowed or short in allowed:
                rep.ok('R5', key, F.loc_of(t['span']), allowed.get(fn) or allowed.get(short))
            elif any(vb.dominates(r, bi) for r in reports):
                rep.ok('R5', key, F.loc_of(t['span']), 'dominated by a report_error call')
            elif not t['dest']['p'] and any(F.norm_callee(t2) == 'std::mem::replace' and len(t2['args']) == 2 and F.op_local(t2['args'][1]) == t['dest']['l'] for _, t2 in vb.calls()):
                # `mem::replace(slot, Default::default())` is `mem::take(slot)` spelled out: the placeholder goes INTO the slot, the node comes out
                rep.ok('R5', key, F.loc_of(t['span']), 'moved into a slot by mem::replace (the take idiom): the value returned is the former content of the slot')
            elif fn == PARSE:
                # the placeholder standing for an unwalked erroneous tree: only on the edge where the listener vector is NOT empty
                vpv = vpv or F.Prov(vb)
                conds = edge_conditions(vb, vpv, bi)
                okk = any(term[0] == 'call' and term[1] == 'std::vec::Vec::is_empty' and not truth for term, truth in conds)
                rep.check(okk, 'R5', key, F.loc_of(t['span']), 'only when the listeners recorded errors', 'placeholder built in parse() without recorded errors')
            else:
                rep.violation('R5', key, F.loc_of(t['span']), 'placeholder node returned in %s without recording an error: a tree containing Expr::Unspecified could be returned as a program (and panics when evaluated)' % short)
    rep.floor('R5', 10)
    # ---------------- R6
    ledger = P.load_ledger()
    bodies = [x for x in sorted(fx.bodies.values(), key=lambda y: (y.loc(), y.path)) if x.crate == 'cel_parser' and x.raw['kind'] != 'Promoted' and not x.is_derived() and PARSER_FILES.match(x.loc())]
    P.audit(fx, rep, 'R6', bodies, ledger, 'parse')
    # ---------------- R7
    db = [x for x in fx.bodies.values() if x.raw.get('impl_trait') == 'std::fmt::Display' and x.raw.get('impl_self') == 'cel_parser::parser::ParseError' and x.raw['kind'] == 'AssocFn']
    okk = len(db) == 1
    if okk:
        d = db[0]
        rep.analysed(d)
        wf = [(bi, t) for bi, t in d.calls() if F.norm_callee(t) == 'std::fmt::Formatter::write_fmt']
        first = [x for x in wf if all(d.dominates(x[0], r) for r, _ in d.terms('Return'))]
        okk = len(first) >= 1
        if okk:
            dpv = F.Prov(d)
            tmpl = None
            for x in dpv.of_operand(first[0][1]['args'][1]):
                F.term_contains(x, lambda y: y[0] == 'const' and isinstance(y[1], tuple) and y[1][0] == 'text' and y[1][1].startswith('b"') and (tmpl_set(y[1][1])) )
            tmpl = _T.get('v')
            okk = tmpl is not None and first_piece_literal(tmpl)
    rep.check(okk, 'R7', 'ParseError-display-starts-with-literal', db[0].loc() if db else '-', 'first write on every path begins with a non-empty literal ("ERROR: <input>:")', 'rendering of a ParseError may be empty')


_T = {}


def tmpl_set(s):
    _T['v'] = s
    return False


def first_piece_literal(text):
    """format_args template bytes: a leading byte 1..0x7f is the length of a literal piece"""
    m = re.match(r'^b"(\\x([0-9a-fA-F]{2})|[^\\])', text)
    if not m:
        return False
    if m.group(2):
        v = int(m.group(2), 16)
    else:
        v = ord(m.group(1))
    return 1 <= v <= 0x7f
