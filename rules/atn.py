"""Decoder for ANTLR 4 serialized ATNs (version 3, UUID 59627784-... = all features),
as embedded in gen/cellexer.rs and gen/celparser.rs (`_serializedATN`).
Every value except the version is stored offset by +2 (mod 2^16)."""

# transition types
EPSILON, RANGE, RULE, PREDICATE, ATOM, ACTION, SET, NOT_SET, WILDCARD, PRECEDENCE = range(1, 11)
TNAMES = {1: 'EPSILON', 2: 'RANGE', 3: 'RULE', 4: 'PREDICATE', 5: 'ATOM', 6: 'ACTION', 7: 'SET', 8: 'NOT_SET', 9: 'WILDCARD', 10: 'PRECEDENCE'}
# state types
ST_INVALID, ST_BASIC, ST_RULE_START, ST_BLOCK_START, ST_PLUS_BLOCK_START, ST_STAR_BLOCK_START, ST_TOKEN_START, ST_RULE_STOP, \
    ST_BLOCK_END, ST_STAR_LOOP_BACK, ST_STAR_LOOP_ENTRY, ST_PLUS_LOOP_BACK, ST_LOOP_END = range(13)
UUID_SMP = [0x6089, 0xA728, 0x8131, 0xB9EB, 0x417A, 0x3BE5, 0x7784, 0x5962]


class ATNError(Exception):
    pass


class ATN:
    pass


def decode(s):
    data = [ord(c) for c in s]
    vals = [data[0]] + [(v - 2) & 0xFFFF for v in data[1:]]
    p = [0]

    def rd():
        v = vals[p[0]]
        p[0] += 1
        return v

    def rd32():
        lo = rd()
        hi = rd()
        return lo | (hi << 16)
    a = ATN()
    a.version = rd()
    if a.version != 3:
        raise ATNError('unsupported serialized ATN version %d' % a.version)
    uuid = [rd() for _ in range(8)]
    if uuid != UUID_SMP:
        raise ATNError('unsupported ATN UUID %s' % ['%04x' % u for u in uuid])
    a.grammar_type = rd()
    a.max_token_type = rd()
    n = rd()
    a.states = []
    for i in range(n):
        st = rd()
        d = {'id': i, 'type': st, 'rule': None, 'trans': []}
        if st == ST_INVALID:
            a.states.append(d)
            continue
        r = rd()
        d['rule'] = -1 if r == 0xFFFF else r
        if st == ST_LOOP_END:
            d['loopback'] = rd()
        elif st in (ST_BLOCK_START, ST_PLUS_BLOCK_START, ST_STAR_BLOCK_START):
            d['end'] = rd()
        a.states.append(d)
    a.non_greedy = [rd() for _ in range(rd())]
    a.precedence_states = [rd() for _ in range(rd())]
    nr = rd()
    a.rule_start = []
    a.rule_token_type = []
    for i in range(nr):
        a.rule_start.append(rd())
        if a.grammar_type == 0:
            tt = rd()
            a.rule_token_type.append(-1 if tt == 0xFFFF else tt)
    a.rule_stop = {}
    for s_ in a.states:
        if s_['type'] == ST_RULE_STOP:
            a.rule_stop[s_['rule']] = s_['id']
    a.modes = [rd() for _ in range(rd())]
    a.sets = []
    for wide in (False, True):
        ns = rd()
        for i in range(ns):
            ni = rd()
            contains_eof = rd() != 0
            ivs = []
            if contains_eof:
                ivs.append((-1, -1))
            for j in range(ni):
                lo = rd32() if wide else rd()
                hi = rd32() if wide else rd()
                ivs.append((lo, hi))
            a.sets.append(ivs)
    ne = rd()
    a.edges = []
    for i in range(ne):
        src, trg, tt, a1, a2, a3 = rd(), rd(), rd(), rd(), rd(), rd()
        e = {'src': src, 'trg': trg, 'type': tt, 'a1': a1, 'a2': a2, 'a3': a3}
        if tt == ATOM:
            e['label'] = -1 if a3 != 0 else a1
        elif tt == RANGE:
            e['range'] = (-1 if a3 != 0 else a1, a2)
        elif tt in (SET, NOT_SET):
            e['set'] = a.sets[a1]
        elif tt == RULE:
            e['rule'] = a2
            e['precedence'] = a3
            e['follow'] = trg
            e['trg'] = a1          # target is the rule start state; follow state in 'follow'
        elif tt == PRECEDENCE:
            e['precedence'] = a1
        elif tt == PREDICATE:
            e['rule'] = a1
            e['pred'] = a2
        elif tt == ACTION:
            e['rule'] = a1
            e['action'] = -1 if a2 == 0xFFFF else a2
        a.edges.append(e)
        a.states[src]['trans'].append(e)
    a.decisions = [rd() for _ in range(rd())]
    a.lexer_actions = []
    if a.grammar_type == 0:
        for i in range(rd()):
            at, d1, d2 = rd(), rd(), rd()
            a.lexer_actions.append({'type': at, 'd1': -1 if d1 == 0xFFFF else d1, 'd2': -1 if d2 == 0xFFFF else d2})
    a.consumed = p[0]
    a.total = len(vals)
    if a.consumed != a.total:
        raise ATNError('trailing data in serialized ATN: consumed %d of %d' % (a.consumed, a.total))
    return a


def rule_edges(a, rule):
    return [e for e in a.edges if a.states[e['src']]['rule'] == rule]


def labels(e):
    """set of code points / token types an edge consumes ((lo,hi) intervals), or None for non-consuming edges"""
    t = e['type']
    if t == ATOM:
        return [(e['label'], e['label'])]
    if t == RANGE:
        return [e['range']]
    if t == SET:
        return list(e['set'])
    return None


def interval_members(ivs, limit=4096):
    out = set()
    for lo, hi in ivs:
        if hi - lo > limit:
            raise ATNError('interval too large to enumerate')
        out.update(range(lo, hi + 1))
    return out


if __name__ == '__main__':
    import sys, json
    d = json.load(open(sys.argv[1]))
    for c in d['consts']:
        if c['path'].endswith('_serializedATN'):
            a = decode(c['val'])
            print(c['path'], 'type', a.grammar_type, 'states', len(a.states), 'rules', len(a.rule_start), 'edges', len(a.edges), 'decisions', len(a.decisions),
                  'sets', len(a.sets), 'lexer actions', a.lexer_actions, 'precedence states', a.precedence_states)
