"""C14 — list, map and string operations agree with one another (lookup-site agreement)."""
import re
from . import facts as F
from .evalmodel import EvalModel, RESOLVE_FNS

LEVEL = 'other'
TRUSTED = ['rustc nightly (MIR construction, callee resolution)', 'std HashMap / slice::get / slice::contains / Option::or_else contracts']
EXPLANATION = ('R1: every raw HashMap<Key,Value> lookup (get/contains_key/get_key_value) outside Map::get whose key may be numeric (converted from an arbitrary Value) is a disagreement '
               'with `m[k]`, which goes through Map::get (int/uint cross lookup); lookups whose key is built from a string/bool type are allowed because those kinds have no numeric twin. '
               'R2: Map::get tries the key as given and falls back to the converted key only on a miss, converting Int<->Uint with try_from (no `as`). '
               'R3: list indexing uses slice::get (never Index) and maps a miss to Null; `in` on lists uses slice::contains (PartialEq); map literals insert every entry with the evaluated key and value. '
               'R4: list/string `+` appends the right operand to a copy-on-write view of the left one and returns that buffer (order preserved, operands intact by Arc::make_mut); R5: size() is len() of the receiver\'s own payload. Additivity of size then follows from std\'s append/extend/push_str contracts, which are trusted.')
ASSUMPTIONS = ['size/+ laws follow from Vec::append/extend and String::push_str (std) and are not re-derived', 'has() compares key text and member() uses a String key: both allowed by R1 since strings have no numeric twin']

LOOKUPS = {'std::collections::HashMap::get', 'std::collections::HashMap::contains_key', 'std::collections::HashMap::get_key_value',
           'std::collections::HashMap::get_mut', 'std::collections::HashMap::remove', 'std::collections::HashMap::entry'}
MAPTY = re.compile(r'HashMap<(\w+::)*objects::Key, (\w+::)*objects::Value')
STRINGY = ('std::string::String', 'std::sync::Arc<std::string::String>', '&str', "&'a str", 'bool')
NO_CONV_TRANSPARENT = {k: v for k, v in F.TRANSPARENT.items() if k not in ('std::convert::Into::into', 'std::convert::From::from')}


def key_kind(b, term):
    """'string' | 'numeric?' | 'param' for the provenance term of a key operand"""
    if term[0] == 'call':
        n = term[1]
        t = b.blocks[term[3]]['term']
        ga = (t.get('callee') or {}).get('args', [])
        if n in ('std::convert::Into::into', 'std::convert::From::from') and ga:
            src = ga[0] if n.endswith('into') else ga[-1]
            if n.endswith('::from'):
                # From::from generic args: [Self, T]
                src = ga[1] if len(ga) > 1 else ga[0]
            if any(src == s or src.startswith(s) for s in STRINGY):
                return 'string'
            return 'conv-from ' + src
        if n in ('std::convert::TryInto::try_into', 'std::convert::TryFrom::try_from'):
            return 'numeric?'
        return 'call ' + n
    if term[0] == 'agg':
        if term[1].endswith('Key::String') or term[1].endswith('Key::Bool'):
            return 'string'
        return 'numeric?'
    if term[0] == 'param':
        return 'param'
    if term[0] in ('f', 'dc', 'ix', 'iter'):
        return key_kind(b, term[1])
    return 'unknown'


def core(fx, rep, crate, map_get, map_get_paths):
    rep.rule('R1', 'possibly-numeric keys are looked up through Map::get only')
    rep.rule('R2', 'Map::get: exact key first, converted key only on a miss, try_from conversions')
    n = 0
    for b in fx.bodies.values():
        if b.crate != crate or b.raw['kind'] == 'Promoted':
            continue
        pv = None
        for bi, t in b.calls():
            nm = F.norm_callee(t)
            if nm == map_get:
                n += 1
                rep.ok('R1', 'via-accessor/%s/%d' % (b.path, sum(1 for k in getattr(rep, 'inst', {}) if k[0] == 'R1' and k[1].startswith('via-accessor/%s/' % b.path))),
                       F.loc_of(t['span']), 'lookup through Map::get')
                continue
            if nm not in LOOKUPS or not MAPTY.search(t['arg_tys'][0]):
                continue
            n += 1
            rep.analysed(b)
            if b.path in map_get_paths:
                rep.ok('R1', 'site/%s/%s' % (b.path, nm.rsplit('::', 1)[-1]), F.loc_of(t['span']), 'inside the accessor itself')
                continue
            pv = pv or F.Prov(b, transparent=NO_CONV_TRANSPARENT)
            kinds = sorted({key_kind(b, x) for x in pv.of_operand(t['args'][1])})
            okk = all(k == 'string' for k in kinds)
            rep.check(okk, 'R1', 'site/%s/%s' % (b.path, nm.rsplit('::', 1)[-1]), F.loc_of(t['span']),
                      'key is built from a string/bool type (no numeric twin)',
                      'raw %s on a CEL map with a key of kind %s: disagrees with m[k] (Map::get) for numerically equal int/uint keys' % (nm.rsplit('::', 1)[-1], kinds))
    return n


def check_map_get(fx, rep, map_get):
    b = fx.body(map_get)
    rep.analysed(b)
    pv = F.Prov(b)
    cl = [fx.bodies[c] for c in fx.children.get(b.path, []) if fx.bodies[c].raw['kind'] == 'Closure']
    gets = [(bi, t) for bi, t in b.calls() if F.norm_callee(t) == 'std::collections::HashMap::get']
    exact = [(bi, t) for bi, t in gets if all(x == ('param', 2) for x in pv.of_operand(t['args'][1]))]
    rep.check(len(exact) == 1, 'R2', 'exact-key-first', b.loc(), 'self.map.get(key) with the key as given', 'Map::get does not start with a lookup of the key as given')
    if len(exact) != 1:
        return
    ebi = exact[0][0]
    rest = [(bi, t) for bi, t in gets if bi != ebi]
    npv = F.Prov(b, transparent={})
    if cl and not rest:
        # form 1: exact.or_else(|| fallback)
        ors = [(bi, t) for bi, t in b.calls() if F.norm_callee(t) == 'std::option::Option::or_else']
        okk = len(ors) == 1 and len(cl) == 1 and all(x[0] == 'call' and x[3] == ebi for x in npv.of_operand(ors[0][1]['args'][0]))
        rep.check(okk, 'R2', 'fallback-only-on-miss', b.loc(), 'fallback is the or_else closure of the exact lookup', 'fallback lookup is not confined to the miss edge of the exact lookup')
        if len(cl) != 1:
            rep.violation('R2', 'closure', b.loc(), 'expected one fallback closure in Map::get, found %d' % len(cl))
            return
        c = cl[0]
    else:
        # form 2: `if let Some(v) = exact { return Some(v) }` followed by the fallback in the same body
        okk = len(rest) == 1 and not cl
        if okk:
            fbi = rest[0][0]
            okk = False
            for sb, blk in enumerate(b.blocks):
                t = blk['term']
                if t['k'] != 'SwitchInt' or not b.dominates(sb, fbi):
                    continue
                dl = F.op_local(t['discr'])
                for st in blk['stmts']:
                    if st['k'] == 'Assign' and st['rv']['k'] == 'Discriminant' and st['place']['l'] == dl and not st['place'].get('p') and \
                       any(x[0] == 'call' and x[3] == ebi for x in npv.of_operand({'k': 'Copy', 'place': st['rv']['place']})):
                        some_t = [k for v, k in t['arms'] if int(v) == 1] or ([t['otherwise']] if any(int(v) == 0 for v, _ in t['arms']) else [])
                        okk = bool(some_t) and fbi not in b.reachable_from(some_t)
        rep.check(okk, 'R2', 'fallback-only-on-miss', b.loc(), 'the converted lookup is reachable only when the exact lookup returned None', 'fallback lookup is not confined to the miss edge of the exact lookup')
        c = b
    rep.analysed(c)
    casts = [s for _, _, s in c.stmts() if s['k'] == 'Assign' and s['rv']['k'] == 'Cast' and s['rv']['kind'] in ('IntToInt', 'IntToFloat', 'FloatToInt')]
    rep.check(not casts, 'R2', 'no-as-cast', c.loc(), 'no `as` conversion between key kinds', 'Map::get converts keys with `as` (wraps negative/huge keys onto other keys)')
    cpv = F.Prov(c, transparent={k: v for k, v in F.TRANSPARENT.items() if k not in ('std::convert::TryFrom::try_from',)})
    want = {('Int', 'Uint', 'u64'): False, ('Uint', 'Int', 'i64'): False}
    for _, _, s in c.stmts():
        if s['k'] == 'Assign' and s['rv']['k'] == 'Aggregate' and s['rv'].get('adt', '').endswith('objects::Key'):
            tgt = s['rv']['variant']
            for term in cpv.of_operand(s['rv']['ops'][0]):
                # payload of try_from(key payload of the other kind)
                def find(tt):
                    if isinstance(tt, tuple):
                        if tt[0] == 'call' and tt[1] == 'std::convert::TryFrom::try_from':
                            return tt
                        for x in tt[1:]:
                            r = find(x) if isinstance(x, tuple) else None
                            if r:
                                return r
                        if tt[0] == 'call':
                            for x in tt[2]:
                                r = find(x)
                                if r:
                                    return r
                    return None
                tf = find(term)
                if tf:
                    ga = c.blocks[tf[3]]['term']['callee']['args']
                    src = [x for x in tf[2]][0]
                    srcv = None
                    tt = src
                    while isinstance(tt, tuple) and tt[0] in ('f', 'dc'):
                        if tt[0] == 'dc':
                            srcv = tt[2]
                        tt = tt[1]
                    for k in want:
                        if k[0] == srcv and k[1] == tgt and ga[0] == k[2]:
                            want[k] = True
    for k, v in want.items():
        rep.check(v, 'R2', 'convert/%s->%s' % (k[0], k[1]), c.loc(), 'Key::%s(k) -> Key::%s(%s::try_from(k))' % (k[0], k[1], k[2]),
                  'no checked conversion Key::%s -> Key::%s found in the fallback' % (k[0], k[1]))
    g2 = [(bi, t) for bi, t in c.calls() if F.norm_callee(t) == 'std::collections::HashMap::get' and not (c is b and bi == ebi)]
    rep.check(len(g2) == 1, 'R2', 'fallback-lookup', c.loc(), 'one lookup with the converted key', 'fallback performs %d lookups' % len(g2))


def check_r3(fx, rep):
    rep.rule('R3', 'list indexing via slice::get -> Null on miss; `in` on lists via contains; map literal inserts every entry')
    m = EvalModel(fx)
    b = m.b
    arms = m.arms()
    if '_[_]' not in arms or '@in' not in arms:
        raise F.Lost('index / in arms not found')
    reg = b.reachable_from([arms['_[_]']['entry']]) - b.reachable_from([arms['_[_]']['miss']])
    idx_calls = [(bi, t) for bi, t in b.calls() if bi in reg]
    raw = [t for bi, t in idx_calls if F.norm_callee(t) in ('std::ops::Index::index',) and ('objects::Value' in t['arg_tys'][0]) and 'Expression' not in t['arg_tys'][0]]
    rep.check(not raw, 'R3', 'index/no-raw-index', arms['_[_]']['loc'], 'no Index::index on a list of values in the index arm',
              'list elements are fetched with `[]` (panics out of range instead of yielding null)')
    gets = [t for bi, t in idx_calls if F.norm_callee(t) == 'core::slice::<impl [T]>::get' and 'objects::Value' in t['arg_tys'][0]]
    rep.check(len(gets) >= 1, 'R3', 'index/list-get', arms['_[_]']['loc'], 'slice::get on the list', 'no slice::get on the list in the index arm')
    mg = [t for bi, t in idx_calls if F.norm_callee(t) == 'cel_interpreter::objects::Map::get']
    rawmap = [t for bi, t in idx_calls if F.norm_callee(t) in LOOKUPS and MAPTY.search(t['arg_tys'][0])]
    rep.check(len(mg) >= 1 and not rawmap, 'R3', 'index/map-get', arms['_[_]']['loc'], '%d Map::get call(s), no raw lookup' % len(mg),
              'map indexing does not go through Map::get (%d Map::get, %d raw lookups)' % (len(mg), len(rawmap)))
    # None -> Null: every unwrap_or in the arm has a Value::Null aggregate as default
    pv = m.pv
    for bi, t in idx_calls:
        if F.norm_callee(t) == 'std::option::Option::unwrap_or':
            d = pv.of_operand(t['args'][1])
            rep.check(all(x[0] == 'agg' and x[1].endswith('Value::Null') for x in d), 'R3', 'index/miss->Null/%d' % len([1 for k in rep.inst if k[0] == 'R3' and 'miss->Null' in k[1]]) if hasattr(rep, 'inst') else 'index/miss->Null',
                      F.loc_of(t['span']), 'absent element/key -> Null', 'absent element/key does not yield Null')
    reg_in = b.reachable_from([arms['@in']['entry']]) - b.reachable_from([arms['@in']['miss']])
    cont = [t for bi, t in b.calls() if bi in reg_in and F.norm_callee(t) == 'core::slice::<impl [T]>::contains' and 'objects::Value' in t['arg_tys'][0]]
    rep.check(len(cont) == 1, 'R3', 'in/list-contains', arms['@in']['loc'], 'x in list == slice::contains (PartialEq)', '`in` on lists is not slice::contains')
    # map literal
    ins = [(bi, t) for bi, t in b.calls() if F.norm_callee(t) == 'std::collections::HashMap::insert' and MAPTY.search(t['arg_tys'][0])]
    okk = len(ins) == 1
    if okk:
        kt = pv.of_operand(ins[0][1]['args'][1])
        vt = pv.of_operand(ins[0][1]['args'][2])
        def from_site(ts, suffix):
            return all(F.term_contains(x, lambda y: isinstance(y, tuple) and y[0] == 'call' and y[1] in RESOLVE_FNS and
                                       any(isinstance(z, tuple) and z[0] == 'f' and z[2] == suffix for z in y[2])) for x in ts)
        okk = from_site(kt, 'key') and from_site(vt, 'value')
    rep.check(okk, 'R3', 'map-literal/insert-evaluated-key-value', b.loc(), 'map.insert(resolve(key), resolve(value)) per entry', 'map literal does not insert the evaluated key/value of every entry')
    if len(ins) == 1:
        # an entry is dropped or rejected only because evaluating it failed or its key has an unsupported kind
        ib = ins[0][0]
        keyres = [bi for bi, t in b.calls() if F.norm_callee(t) in RESOLVE_FNS and b.dominates(bi, ib) and
                  any(isinstance(z, tuple) and z[0] == 'f' and z[2] == 'key' for x in pv.of_operand(t['args'][0]) for z in [x] + list(x[1:2]))]
        keyres = keyres or [bi for bi, t in b.calls() if F.norm_callee(t) in RESOLVE_FNS and b.dominates(bi, ib) and 'key' in ' '.join(F.term_str(x) for x in pv.of_operand(t['args'][0]))]
        rejects = []
        if keyres:
            exits = b.reachable_from(b.succ(keyres[0]), blocked={ib})
            for e in sorted(exits):
                tt = b.blocks[e]['term']
                if tt['k'] == 'Call' and re.match(r'^cel_interpreter::(ExecutionError::\w+|functions::FunctionContext::error)$', F.norm_callee(tt) or ''):
                    rejects.append(F.norm_callee(tt).rsplit('::', 1)[-1])
                for st in b.blocks[e]['stmts']:
                    if st['k'] == 'Assign' and st['rv']['k'] == 'Aggregate' and st['rv'].get('adt') == 'cel_interpreter::ExecutionError' and st['rv'].get('variant') != 'UnsupportedKeyType':
                        rejects.append(st['rv'].get('variant'))
        rep.check(bool(keyres) and not rejects, 'R3', 'map-literal/no-entry-rejected', b.loc(), 'between evaluating a key and inserting the entry only evaluation errors and UnsupportedKeyType can leave the loop',
                  'the map literal loop raises %s between evaluating a key and inserting the entry: a literal with pairwise distinct keys (1 and \'1\') no longer holds exactly the entries written' % rejects)


def check_concat_size(fx, rep):
    """R4: concatenation appends rhs to self (order), result is self's buffer; R5: size() is len() of the receiver's own payload"""
    from .c08 import find_impl_body
    rep.rule('R4', 'list/string `+`: rhs is appended to (a copy-on-write view of) self, the result wraps self\'s buffer')
    rep.rule('R5', 'size(): len() of the receiver\'s own payload for list, map, string, bytes')
    b = find_impl_body(fx, 'std::ops::Add', 'cel_interpreter::objects::Value')
    rep.analysed(b)
    pv = F.Prov(b)
    want = {
        'List': [('std::vec::Vec::append', 'make_mut((arg1 as List).0)', 'get_mut((arg2 as List).0)'), ('std::iter::Extend::extend', 'make_mut((arg1 as List).0)', '(arg2 as List).0')],
        'String': [('std::string::String::push_str', 'make_mut((arg1 as String).0)', '(arg2 as String).0')],
    }
    got = []
    for bi, t in b.calls():
        n = F.norm_callee(t)
        if n in ('std::vec::Vec::append', 'std::iter::Extend::extend', 'std::string::String::push_str', 'std::vec::Vec::extend_from_slice', 'std::vec::Vec::insert', 'std::string::String::insert_str'):
            got.append((n, '|'.join(sorted(F.term_str(x) for x in pv.of_operand(t['args'][0]))), '|'.join(sorted(F.term_str(x) for x in pv.of_operand(t['args'][1])))))
    for kind, exp in want.items():
        mine = [g for g in got if ('as %s)' % kind) in g[1] or ('as %s)' % kind) in g[2]]
        rep.check(sorted(mine) == sorted(exp), 'R4', 'concat/%s/rhs-appended-to-self' % kind, b.loc(), '; '.join('%s(%s, %s)' % (g[0].rsplit('::', 1)[-1], g[1], g[2]) for g in mine),
                  '%s concatenation performs %s, expected %s: element order or the operands are not preserved' % (kind, mine, exp))
        aggs = [s for _, _, s in b.stmts() if s['k'] == 'Assign' and s['rv']['k'] == 'Aggregate' and s['rv'].get('adt', '').endswith('objects::Value') and s['rv'].get('variant') == kind]
        okk = len(aggs) == 1 and sorted(F.term_str(x) for x in pv.of_operand(aggs[0]['rv']['ops'][0])) == ['(arg1 as %s).0' % kind]
        rep.check(okk, 'R4', 'concat/%s/result-is-self-buffer' % kind, b.loc(), 'Value::%s(self buffer after the append)' % kind, 'the result of %s concatenation is not self\'s (copy-on-write) buffer' % kind)
    sb = fx.body('cel_interpreter::functions::size')
    rep.analysed(sb)
    spv = F.Prov(sb)
    lens = {}
    for bi, t in sb.calls():
        n = F.norm_callee(t)
        if n.endswith('::len'):
            for x in spv.of_operand(t['args'][0]):
                lens[F.term_str(x)] = n
    exp = {'(arg2.0 as List).0': 'std::vec::Vec::len', '(arg2.0 as Map).0.map': 'std::collections::HashMap::len', '(arg2.0 as String).0': 'std::string::String::len', '(arg2.0 as Bytes).0': 'std::vec::Vec::len'}
    rep.check(lens == exp, 'R5', 'size/len-of-own-payload', sb.loc(), 'list/map/string/bytes -> len()', 'size() computes %s, expected %s' % (lens, exp))
    casts = [s for _, _, s in sb.stmts() if s['k'] == 'Assign' and s['rv']['k'] == 'BinaryOp' and s['rv']['op'].rstrip('WithOverflow') in ('Add', 'Sub', 'Mul')]
    rep.check(not casts, 'R5', 'size/no-arithmetic', sb.loc(), 'the length is returned as is', 'size() adjusts the length arithmetically')


def check_has(fx, rep, mg):
    rep.rule('R6', 'has(m.f) is decided by the map\'s own keys only (no member()/function-registry fallback), so it agrees with `in`')
    b = fx.body('cel_interpreter::objects::Value::resolve')
    sites = []
    for bi, blk in enumerate(b.blocks):
        t = blk['term']
        if t['k'] != 'SwitchInt':
            continue
        # discriminant operand defined in this block from a place ending in field `test`
        for st in blk['stmts']:
            if st['k'] == 'Assign' and st['rv']['k'] == 'Use' and st['rv']['op']['k'] in ('Copy', 'Move') and not st['place'].get('p') and \
               t['discr'].get('place', {}).get('l') == st['place']['l'] and any(pr.get('k') == 'Field' and pr.get('name') == 'test' for pr in st['rv']['op'].get('place', {}).get('p', [])):
                sites.append(bi)
    rep.check(len(sites) == 1, 'R6', 'has/test-branch-found', b.loc(), 'one branch on SelectExpr.test', '%d branches on SelectExpr.test found in Value::resolve (anchor lost)' % len(sites))
    if len(sites) != 1:
        return
    bi = sites[0]
    t = b.blocks[bi]['term']
    other = t['otherwise']
    falses = [k for v, k in t['arms'] if v == 0]
    rtrue = b.reachable_from([other])
    rfalse = b.reachable_from(falses)
    region = rtrue - rfalse
    internal, lookups = [], 0
    for rb in sorted(region):
        tt = b.blocks[rb]['term']
        if tt['k'] != 'Call':
            continue
        n = F.norm_callee(tt) or ''
        if n == mg or (n in LOOKUPS or n in ('std::collections::HashMap::keys', 'std::collections::HashMap::contains_key', 'std::collections::HashMap::get')) and MAPTY.search(tt['arg_tys'][0]):
            lookups += 1
        elif n.startswith('cel_interpreter::') or n.startswith('cel_parser::'):
            internal.append((n, F.loc_of(tt['span'])))
    for n, where in internal:
        rep.violation('R6', 'has/consults/%s' % n.split('::', 1)[-1], where,
                      'has(m.f) calls %s: field selection falls back to registered functions and other non-key sources, so has({\'a\': 1}.size) is true while \'size\' in m is false' % n)
    rep.check(lookups >= 1, 'R6', 'has/looks-at-the-keys', b.loc(), '%d lookup(s) on the map payload' % lookups, 'has(m.f) performs no lookup on the map payload')


def check_key_conversions(fx, rep):
    rep.rule('R7', 'Value <-> Key conversions keep kind and payload (a map literal holds exactly the keys written; ranging over a map yields its keys)')
    K, V = 'cel_interpreter::objects::Key', 'cel_interpreter::objects::Value'
    tables = {
        '<%s as std::convert::TryInto<%s>>::try_into' % (V, K): ({'Int': 'Int', 'UInt': 'Uint', 'String': 'String', 'Bool': 'Bool'}, K),
        '<%s as std::convert::From<&%s>>::from' % (V, K): ({'Int': 'Int', 'Uint': 'UInt', 'String': 'String', 'Bool': 'Bool'}, V),
        '<%s as std::convert::From<%s>>::from' % (V, K): ({'Int': 'Int', 'Uint': 'UInt', 'String': 'String', 'Bool': 'Bool'}, V),
    }
    for path, (want, target) in tables.items():
        b = fx.bodies.get(path)
        if b is None:
            raise F.Lost('conversion %s not found' % path)
        rep.analysed(b)
        pv = F.Prov(b, transparent={k: v for k, v in F.TRANSPARENT.items() if k not in ('std::convert::Into::into', 'std::convert::From::from', 'std::convert::TryFrom::try_from', 'std::convert::TryInto::try_into')})
        got = {}
        for _, _, st in b.stmts():
            if st['k'] == 'Assign' and st['rv']['k'] == 'Aggregate' and st['rv'].get('adt') == target and st['rv']['ops']:
                for x in pv.of_operand(st['rv']['ops'][0]):
                    y = x
                    while y[0] == 'call' and y[1] in ('std::clone::Clone::clone',) and y[2]:
                        y = y[2][0]
                    src = y[1][2] if y[0] == 'f' and y[2] in (0, '0') and y[1][0] == 'dc' and y[1][1] == ('param', 1) else '? ' + F.term_str(x)[:50]
                    got.setdefault(src, set()).add(st['rv']['variant'])
        casts = [st for _, _, st in b.stmts() if st['k'] == 'Assign' and st['rv']['k'] == 'Cast' and st['rv']['kind'] in ('IntToInt', 'FloatToInt', 'IntToFloat')]
        # a kind table has nothing to compute: any call besides a clone of the payload is a conversion in disguise
        extra = sorted({F.norm_callee(t) or '?' for bi, t in b.calls() if (F.norm_callee(t) or '') not in ('std::clone::Clone::clone',)})
        okk = {k: sorted(v) for k, v in got.items()} == {k: [v] for k, v in want.items()} and not casts and not extra
        short = re.sub(r'cel_interpreter::objects::', '', path)
        rep.check(okk, 'R7', 'conversion/%s' % short, b.loc(), 'variant table %s' % want,
                  '%s maps %s%s%s, expected %s with the payload unchanged' % (short, {k: sorted(v) for k, v in got.items()}, ' with numeric casts' if casts else '', (' and calls %s' % extra) if extra else '', want))


def check_member(fx, rep):
    rep.rule('R8', 'm.k: the map entry decides first; the method-reference fallback is built only when the key is absent (so m.k agrees with m[k], `in`, has())')
    b = fx.body('cel_interpreter::objects::Value::member')
    rep.analysed(b)
    pv = F.Prov(b)
    fbs = [bi for bi, j, st in b.stmts() if st['k'] == 'Assign' and st['rv']['k'] == 'Aggregate' and st['rv'].get('adt') == 'cel_interpreter::objects::Value' and st['rv'].get('variant') == 'Function']
    gets = [bi for bi, t in b.calls() if F.norm_callee(t) in ('std::collections::HashMap::get', 'cel_interpreter::objects::Map::get') and MAPTY.search(t['arg_tys'][0] + ' ' + t['arg_tys'][0].replace('&', ''))] or \
           [bi for bi, t in b.calls() if F.norm_callee(t) in ('std::collections::HashMap::get', 'cel_interpreter::objects::Map::get')]
    rep.check(len(gets) >= 1, 'R8', 'member/looks-up-the-key', b.loc(), '%d lookup(s)' % len(gets), 'Value::member performs no map lookup')
    sw = []
    for bi, blk in enumerate(b.blocks):
        t = blk['term']
        if t['k'] != 'SwitchInt':
            continue
        dl = F.op_local(t['discr'])
        for st in blk['stmts']:
            if st['k'] == 'Assign' and st['rv']['k'] == 'Discriminant' and not st['place'].get('p') and st['place']['l'] == dl:
                ts = pv.of_operand({'k': 'Copy', 'place': st['rv']['place']})
                if any(F.term_contains(x, lambda y: y[0] == 'call' and y[1] in ('std::collections::HashMap::get', 'cel_interpreter::objects::Map::get')) for x in ts):
                    some_t = [k for v, k in t['arms'] if int(v) == 1]
                    none_t = [k for v, k in t['arms'] if int(v) == 0]
                    # `if let Some(..)` has one explicit arm; the other variant takes the otherwise edge
                    if not none_t and some_t and t.get('otherwise') is not None:
                        none_t = [t['otherwise']]
                    if not some_t and none_t and t.get('otherwise') is not None:
                        some_t = [t['otherwise']]
                    sw.append((bi, some_t, none_t))
    for fb in fbs:
        okk = False
        for bi, some_t, none_t in sw:
            if b.dominates(bi, fb) and none_t and fb in b.reachable_from(none_t) and not (some_t and fb in b.reachable_from(some_t)):
                okk = True
        rep.check(okk, 'R8', 'member/function-only-when-key-absent', b.loc(), 'Value::Function is built on the None edge of the lookup only',
                  'Value::member builds the method reference without having found the key absent: {\'size\': 7}.size is a function while m[\'size\'] is 7')
    rep.check(len(fbs) >= 1, 'R8', 'member/fallback-found', b.loc(), 'method-reference fallback present', 'no Value::Function fallback found in Value::member (anchor lost)')


def run(fx, rep):
    check_key_conversions(fx, rep)
    check_member(fx, rep)
    from .report import producer_rules
    producer_rules(fx, rep, 'producer rule: index, `in`, select and list/map literal nodes are built from their own children in source order (C04 R3/R7/R8/R9)', [('c04', 'C04', '^(R3/visit_Index/|R3/visit_relation/|R7/visit_(Index|relation|Select|CreateList|CreateStruct)/|R8/|R9/)')], 20)
    mg = 'cel_interpreter::objects::Map::get'
    check_has(fx, rep, mg)
    n = core(fx, rep, 'cel_interpreter', mg, {mg, mg + '::{closure#0}'})
    check_map_get(fx, rep, mg)
    check_r3(fx, rep)
    check_concat_size(fx, rep)
    rep.floor('R1', 5, '(raw: Map::get x2, member(); via Map::get: index, @in, contains())')
    rep.floor('R2', 6)
    rep.floor('R6', 2)
    rep.floor('R7', 3)
    rep.floor('R3', 6)
