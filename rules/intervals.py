"""Interval + NaN-flag abstract interpretation for float->integer casts (C13-R1, C09-R3).

A `FloatToInt` cast (`as`) saturates out-of-range values and maps NaN to 0.  It
denotes the truncated number only when the operand is known to be not-NaN and
inside the half-open range of the target type.  The facts come from the branch
edges every path to the cast must take (mandatory edges) and are comparisons of
the operand with constants, is_nan() and is_finite()."""
import math
from . import facts as F

TARGETS = {'i64': (-2.0 ** 63, 2.0 ** 63), 'u64': (-1.0, 2.0 ** 64), 'i32': (-2.0 ** 31, 2.0 ** 31), 'u32': (-1.0, 2.0 ** 32),
           'i128': (-2.0 ** 127, 2.0 ** 127), 'u128': (-1.0, 2.0 ** 128), 'isize': (-2.0 ** 63, 2.0 ** 63), 'usize': (-1.0, 2.0 ** 64),
           'i16': (-2.0 ** 15, 2.0 ** 15), 'u16': (-1.0, 2.0 ** 16), 'i8': (-128.0, 128.0), 'u8': (-1.0, 256.0)}
INT_TYPES = ('i8', 'i16', 'i32', 'i64', 'i128', 'isize', 'u8', 'u16', 'u32', 'u64', 'u128', 'usize')
INT_BITS = {'i8': 8, 'i16': 16, 'i32': 32, 'i64': 64, 'i128': 128, 'isize': 64, 'u8': 8, 'u16': 16, 'u32': 32, 'u64': 64, 'u128': 128, 'usize': 64}
PASS_THROUGH = {'std::f64::<impl f64>::trunc'}   # monotone, integer-bound preserving (see module doc in DESIGN.md)


def value_key(b, o, depth=0):
    """canonical identity of the value read by operand o (copy chains and trunc() stripped)"""
    if o['k'] == 'Const':
        return ('const', const_float(b, o))
    pl = o['place']
    if pl['p']:
        # (*r).rest where r = &q  ==>  q.rest
        if pl['p'][0]['k'] == 'Deref' and depth < 10:
            ds = b.defs().get(pl['l'], [])
            if len(ds) == 1 and ds[0][1] != 'term' and not ds[0][2]['place']['p'] and ds[0][2]['rv']['k'] in ('Ref', 'CopyForDeref') \
                    and not (1 <= pl['l'] <= b.argc):
                q = ds[0][2]['rv']['place']
                np = {'l': q['l'], 'p': list(q['p']) + list(pl['p'][1:])}
                return value_key(b, {'k': 'Copy', 'place': np}, depth + 1)
        return ('place', pl['l'], repr([(e['k'], e.get('i'), e.get('name')) for e in pl['p']]))
    l = pl['l']
    if depth > 10:
        return ('local', l)
    ds = b.defs().get(l, [])
    if len(ds) == 1 and not (1 <= l <= b.argc):
        bi, j, d = ds[0]
        if j == 'term':
            if F.norm_callee(d) in PASS_THROUGH and d['args']:
                return value_key(b, d['args'][0], depth + 1)
            return ('local', l)
        if d['place']['p']:
            return ('local', l)
        rv = d['rv']
        if rv['k'] == 'Use':
            return value_key(b, rv['op'], depth + 1)
        if rv['k'] == 'Cast' and rv['kind'] == 'IntToFloat' and rv['op']['k'] == 'Const':
            return ('const', float(rv['op']['val']))
        if rv['k'] == 'Cast' and rv['kind'] == 'IntToInt' and rv['op']['k'] == 'Const' and isinstance(rv['op'].get('val'), int) and not isinstance(rv['op'].get('val'), bool) and rv['to'] in INT_BITS:
            v, bits = rv['op']['val'], INT_BITS[rv['to']]
            v &= (1 << bits) - 1                       # `as` between integer types keeps the low bits
            if rv['to'].startswith('i') and v >= 1 << (bits - 1):
                v -= 1 << bits
            return ('const', v if abs(v) > 2 ** 53 else float(v))
        if rv['k'] == 'UnaryOp' and rv['op'] == 'Neg':
            k = value_key(b, rv['a'], depth + 1)
            if k[0] == 'const' and k[1] is not None:
                return ('const', -k[1])
    return ('local', l)


def const_float(b, o):
    v = o.get('val')
    if isinstance(v, bool):
        return float(v)
    if isinstance(v, int) and abs(v) > 2 ** 53:
        return v          # exact: Python compares int with float exactly, float(v) would round 2^63-1 up to 2^63
    if isinstance(v, (int, float)):
        return float(v)
    if isinstance(v, str):
        try:
            return float(v)
        except ValueError:
            return {'inf': math.inf, '-inf': -math.inf}.get(v)
    return None


def cond_of(b, l, depth=0):
    """symbolic condition held by bool local l: ('cmp', op, keyL, keyR) | ('isnan', key) | ('isfinite', key) | ('not', c) | None"""
    if depth > 8:
        return None
    ds = b.defs().get(l, [])
    if len(ds) != 1:
        return None
    bi, j, d = ds[0]
    if j == 'term':
        n = F.norm_callee(d)
        if n in ('std::f64::<impl f64>::is_nan', 'core::f64::<impl f64>::is_nan') and d['args']:
            return ('isnan', value_key(b, d['args'][0]))
        if n in ('std::f64::<impl f64>::is_finite', 'core::f64::<impl f64>::is_finite') and d['args']:
            return ('isfinite', value_key(b, d['args'][0]))
        return None
    rv = d['rv']
    if rv['k'] == 'BinaryOp' and rv['op'] in ('Lt', 'Le', 'Gt', 'Ge', 'Eq', 'Ne') and (rv['lty'] in ('f64', 'f32') or rv['lty'] in INT_TYPES):
        return ('cmp', rv['op'], value_key(b, rv['l']), value_key(b, rv['r']))
    if rv['k'] == 'UnaryOp' and rv['op'] == 'Not':
        ll = F.op_local(rv['a'])
        c = cond_of(b, ll, depth + 1) if ll is not None else None
        return ('not', c) if c else None
    if rv['k'] == 'Use':
        ll = F.op_local(rv['op'])
        return cond_of(b, ll, depth + 1) if ll is not None else None
    return None


def mandatory_edges(b, target):
    """(switch block, discr local, value taken) for every SwitchInt edge all paths to `target` must take"""
    out = []
    live = b.live_blocks()
    for s in sorted(live):
        t = b.blocks[s]['term']
        if t['k'] != 'SwitchInt' or not b.dominates(s, target) or s == target:
            continue
        l = F.op_local(t['discr'])
        if l is None:
            continue
        succs = b.succ(s)
        for tg in succs:
            # remove edge s->tg; is target still reachable from entry?
            r = b.reachable_from([0], edge_filter=lambda a, c, s=s, tg=tg: not (a == s and c == tg))
            if target not in r:
                vals = [int(v) for v, x in t['arms'] if x == tg]
                if tg == t['otherwise']:
                    taken = ('not-in', [int(v) for v, x in t['arms']])
                elif len(vals) == 1:
                    taken = ('eq', vals[0])
                else:
                    continue
                out.append((s, l, taken))
    return out


def facts_at(b, block, key, ints=False):
    """(not_nan, lower bounds, upper bounds) known for value `key` on entry to `block`; ints: the value is an integer (no NaN)"""
    conds = []
    for s, l, taken in mandatory_edges(b, block):
        c = cond_of(b, l)
        if c is None:
            continue
        if taken == ('eq', 1) or taken == ('not-in', [0]):
            truth = True
        elif taken == ('eq', 0) or taken == ('not-in', [1]):
            truth = False
        else:
            continue
        while c and c[0] == 'not':
            c = c[1]
            truth = not truth
        if c:
            conds.append((c, truth))
    not_nan = bool(ints)
    for c, truth in conds:
        if c[0] == 'isnan' and c[1] == key and not truth:
            not_nan = True
        if c[0] == 'isfinite' and c[1] == key and truth:
            not_nan = True
        if c[0] == 'cmp' and key in (c[2], c[3]):
            other = c[3] if c[2] == key else c[2]
            if other[0] == 'const' and other[1] is not None and not math.isnan(other[1]):
                if (c[1] != 'Ne' and truth) or (c[1] == 'Ne' and not truth):
                    not_nan = True
    lows, highs = [], []      # (value, strict)
    for c, truth in conds:
        if c[0] == 'isfinite' and c[1] == key and truth:
            lows.append((-1.7976931348623157e308, False))
            highs.append((1.7976931348623157e308, False))
        if c[0] != 'cmp' or key not in (c[2], c[3]):
            continue
        op = c[1]
        if c[3] == key and c[2] != key:
            # const op v  ->  v op' const
            op = {'Lt': 'Gt', 'Le': 'Ge', 'Gt': 'Lt', 'Ge': 'Le', 'Eq': 'Eq', 'Ne': 'Ne'}[op]
            other = c[2]
        else:
            other = c[3]
        if other[0] != 'const' or other[1] is None:
            continue
        cv = other[1]
        if not truth:
            if not not_nan:
                continue      # a failed comparison says nothing when the operand may be NaN
            op = {'Lt': 'Ge', 'Le': 'Gt', 'Gt': 'Le', 'Ge': 'Lt', 'Eq': 'Ne', 'Ne': 'Eq'}[op]
        if op == 'Lt':
            highs.append((cv, True))
        elif op == 'Le':
            highs.append((cv, False))
        elif op == 'Gt':
            lows.append((cv, True))
        elif op == 'Ge':
            lows.append((cv, False))
        elif op == 'Eq':
            lows.append((cv, False))
            highs.append((cv, False))
    return not_nan, lows, highs


def cast_ok(to, not_nan, lows, highs):
    if to not in TARGETS:
        return False, 'unknown target type %s' % to
    lo, hi = TARGETS[to]
    if not not_nan:
        return False, 'NaN is not excluded on every path (a failed comparison does not exclude NaN)'
    signed = to.startswith('i')
    if signed:
        low_ok = any(v >= lo for v, strict in lows)
    else:
        low_ok = any((v >= lo and strict) or (v > lo and not strict) for v, strict in lows)
    high_ok = any((v <= hi and strict) or (v < hi and not strict) for v, strict in highs)
    if not low_ok:
        return False, 'no lower bound %s %g established (bounds: %s)' % ('>=' if signed else '>', lo, lows)
    if not high_ok:
        return False, 'no upper bound < %g established (bounds: %s): %g itself would saturate' % (hi, highs, hi)
    return True, 'not NaN, %s <= v < %g' % (lo if signed else 0, hi)


def check_float_to_int_casts(b, rep, rule):
    n = 0
    for bi, j, s in b.stmts():
        if s['k'] != 'Assign' or s['rv']['k'] != 'Cast' or s['rv']['kind'] != 'FloatToInt':
            continue
        rv = s['rv']
        n += 1
        fn = F.norm_path(b.path)
        short = fn if fn.startswith('verif_fixtures') else fn.split('::', 1)[-1]
        if rv['op']['k'] == 'Const':
            rep.ok(rule, 'guarded-cast/%s/%s/const' % (short, rv['to']), F.loc_of(s['span']), 'constant operand')
            continue
        key = value_key(b, rv['op'])
        nn, lows, highs = facts_at(b, bi, key)
        okk, why = cast_ok(rv['to'], nn, lows, highs)
        if okk:
            rep.ok(rule, 'guarded-cast/%s/%s->%s' % (short, rv['from'], rv['to']), F.loc_of(s['span']), why)
        else:
            rep.violation(rule, 'unguarded-cast/%s/%s->%s' % (short, rv['from'], rv['to']), F.loc_of(s['span']),
                          '`as %s` on a float that is not proven in range: %s' % (rv['to'], why))
    return n


INT_RANGES = {'i8': (-2 ** 7, 2 ** 7 - 1), 'i16': (-2 ** 15, 2 ** 15 - 1), 'i32': (-2 ** 31, 2 ** 31 - 1), 'i64': (-2 ** 63, 2 ** 63 - 1), 'i128': (-2 ** 127, 2 ** 127 - 1), 'isize': (-2 ** 63, 2 ** 63 - 1),
              'u8': (0, 2 ** 8 - 1), 'u16': (0, 2 ** 16 - 1), 'u32': (0, 2 ** 32 - 1), 'u64': (0, 2 ** 64 - 1), 'u128': (0, 2 ** 128 - 1), 'usize': (0, 2 ** 64 - 1)}


def check_int_to_int_casts(b, rep, rule):
    """every `as` between integer types whose target cannot hold all source values must sit behind guards that
    bound the operand to the target range on every path (mandatory edges); returns the number of such casts"""
    n = 0
    for bi, j, s in b.stmts():
        if s['k'] != 'Assign' or s['rv']['k'] != 'Cast' or s['rv']['kind'] != 'IntToInt' or s['rv']['op']['k'] == 'Const':
            continue
        fr, to = s['rv']['from'], s['rv']['to']
        if fr not in INT_RANGES or to not in INT_RANGES:
            continue
        (slo, shi), (tlo, thi) = INT_RANGES[fr], INT_RANGES[to]
        if tlo <= slo and shi <= thi:
            continue
        n += 1
        fn = F.norm_path(b.path)
        short = fn if fn.startswith('verif_fixtures') else fn.split('::', 1)[-1]
        key = value_key(b, s['rv']['op'])
        _, lows, highs = facts_at(b, bi, key, ints=True)
        low_ok = slo >= tlo or any(v >= tlo or (strict and v >= tlo - 1) for v, strict in lows)
        high_ok = shi <= thi or any(v <= thi or (strict and v <= thi + 1) for v, strict in highs)
        if low_ok and high_ok:
            rep.ok(rule, 'guarded-int-cast/%s/%s->%s' % (short, fr, to), F.loc_of(s['span']), 'operand bounded to the range of %s on every path' % to)
        else:
            rep.violation(rule, 'unguarded-int-cast/%s/%s->%s' % (short, fr, to), F.loc_of(s['span']),
                          '`as %s` on a %s that is not proven to fit (%s): the value wraps, e.g. -1 as u64 == 18446744073709551615, so 18446744073709551615u == -1' %
                          (to, fr, 'no lower bound >= %d' % tlo if not low_ok else 'no upper bound <= %d' % thi))
    return n
