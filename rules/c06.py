"""C06 — `&&`, `||`, `?:` evaluate only what they need.

Path rule over the MIR of the evaluator: sparse conditional constant propagation
with the result of `to_bool(<value of args[0]>)` fixed to the deciding value;
the skipped operand's evaluation site must be unreachable."""
from . import facts as F
from .evalmodel import EvalModel, value_of_resolve, reachable_under
from .report import Collector, expect_fixture_hits

LEVEL = 'other'
TRUSTED = ['rustc nightly (MIR construction, callee resolution)']
EXPLANATION = ('For the arms selected by the constants "_&&_", "_||_", "_?_:_" in Value::resolve: (S1) with to_bool(value of args[0]) assumed to be the '
               'deciding value, no call that evaluates args[1] (resp. the untaken branch) is CFG-reachable (SCCP over Not/Eq/Ne/SwitchInt; a dataflow analysis, no '
               'path conditions, no solver); (S2) with the opposite value it is reachable; (S3) no such evaluation is reachable from the arm entry without '
               'passing the to_bool test; (S4) no evaluation of args[k>=1] happens outside an operator arm (no operator-agnostic prelude); (S5) the `?:` branches '
               'are never both evaluated on one path. Holds for every input because it holds for every CFG path. Macro bodies expand to the same three operators (C10).')
ASSUMPTIONS = ['the guard is a boolean function of Value::to_bool(left) built from !, ==/!= with constants and branches inside the evaluator function (inlining bound 0); anything else fails closed',
               'Value::to_bool itself has no side effects (it is a pure match, checked by C05 O6/O1)']

RULES = {
    '_&&_': ('AND', False, 1, None),     # deciding value of to_bool(left), operand skipped, operand needed otherwise
    '_||_': ('OR', True, 1, None),
}


def run_model(m, rep):
    b = m.b
    rep.rule('S1', 'skipped operand unreachable under the deciding value of to_bool(args[0])')
    rep.rule('S2', 'operand reachable under the non-deciding value (it is evaluated when needed)')
    rep.rule('S3', 'operand never evaluated before the test')
    rep.rule('S4', 'args[k>=1] evaluated only inside an operator arm')
    rep.rule('S5', '`?:` never evaluates both branches on one path')
    rep.analysed(b, calls=sum(1 for _ in b.calls()))
    arms = m.arms()
    sites = m.sites()
    tbs = m.to_bool_sites()

    def sites_of(idx, region):
        return [s for s in sites if s['block'] in region and s['paths'] == ['Call.args[%d]' % idx]]

    for op, (nm, deciding, skipped, _) in RULES.items():
        if op not in arms:
            raise F.Lost('operator arm %s not found in the evaluator' % op)
        check_arm(m, rep, op, nm, arms[op], [(deciding, [1], [])], sites_of, tbs)
    if '_?_:_' not in arms:
        raise F.Lost('operator arm _?_:_ not found in the evaluator')
    check_arm(m, rep, '_?_:_', 'COND', arms['_?_:_'], [(True, [2], [1]), (False, [1], [2])], sites_of, tbs)
    # S5: no path evaluates both branches
    reg = m.arm_region('_?_:_')
    s1 = sites_of(1, reg)
    s2 = sites_of(2, reg)
    both = False
    for a in s1:
        r = b.reachable_from([a['block']])
        both |= any(x['block'] in r for x in s2)
    for a in s2:
        r = b.reachable_from([a['block']])
        both |= any(x['block'] in r for x in s1)
    rep.check(not both, 'S5', 'COND/exclusive', arms['_?_:_']['loc'], 'no path through both branch evaluations', 'a path evaluates both branches of ?:')
    # S4: outside all arms (cut every arm entry edge) no args[k>=1] evaluation
    entries = {a['entry'] for a in arms.values()}
    outside = b.reachable_from([0], blocked=entries)
    n = 0
    for s in sites:
        for p in s['paths']:
            if p.startswith('Call.args[') and p != 'Call.args[0]':
                n += 1
                rep.check(s['block'] not in outside, 'S4', 'site/%s/%s' % (p, arm_of(m, s['block'])), s['loc'],
                          'inside operator arm %s' % arm_of(m, s['block']),
                          'evaluation of %s outside any operator arm (operator-agnostic prelude evaluates a possibly skipped operand)' % p)


def arm_of(m, block):
    """innermost arm whose region contains the block but whose miss-successor does not"""
    for op, a in m.arms().items():
        reg = m.b.reachable_from([a['entry']])
        if block in reg and block not in m.b.reachable_from([a['miss']]):
            return op
    return '-'


def check_arm(m, rep, op, nm, arm, cases, sites_of, tbs):
    b = m.b
    region = b.reachable_from([arm['entry']])
    # the test: to_bool applied to the value of args[0], inside this arm
    tests = [t for t in tbs if t['block'] in region and t['terms'] and all(value_of_resolve(x, 0) for x in t['terms'])
             and t['block'] not in b.reachable_from([arm['miss']])]
    if len(tests) != 1:
        rep.violation('S1', '%s/guard' % nm, arm['loc'],
                      'unrecognised guard: expected exactly one to_bool(value of args[0]) in the %s arm, found %d (fail closed)' % (op, len(tests)))
        return
    t = tests[0]
    for (val, skipped, needed) in cases:
        reach = reachable_under(b, t['target'], {t['dest']: val})
        for k in skipped:
            hit = [s for s in sites_of(k, region) if s['block'] in reach]
            rep.check(not hit, 'S1', '%s/to_bool=%s/skips-args[%d]' % (nm, val, k), t['loc'],
                      'args[%d] unreachable when to_bool(args[0]) == %s' % (k, val),
                      'args[%d] is evaluated (%s) although to_bool(args[0]) == %s decides the result' % (k, ', '.join(s['loc'] for s in hit), val))
        for k in needed:
            hit = [s for s in sites_of(k, region) if s['block'] in reach]
            rep.check(bool(hit), 'S2', '%s/to_bool=%s/evaluates-args[%d]' % (nm, val, k), t['loc'],
                      'args[%d] evaluated when to_bool(args[0]) == %s' % (k, val), 'args[%d] is never evaluated when to_bool(args[0]) == %s' % (k, val))
    if len(cases) == 1:
        val, skipped, _ = cases[0]
        reach = reachable_under(b, t['target'], {t['dest']: (not val)})
        for k in skipped:
            hit = [s for s in sites_of(k, region) if s['block'] in reach]
            rep.check(bool(hit), 'S2', '%s/to_bool=%s/evaluates-args[%d]' % (nm, not val, k), t['loc'],
                      'args[%d] evaluated when needed' % k, 'args[%d] is never evaluated in the %s arm' % (k, op))
    # S3: not before the test
    before = b.reachable_from([arm['entry']], blocked={t['block']})
    ks = sorted({k for c in cases for k in c[1] + c[2]})
    for k in ks:
        hit = [s for s in sites_of(k, region) if s['block'] in before]
        rep.check(not hit, 'S3', '%s/args[%d]-after-test' % (nm, k), t['loc'], 'args[%d] evaluated only after the test' % k,
                  'args[%d] is evaluated (%s) on a path that has not yet tested args[0]' % (k, ', '.join(s['loc'] for s in hit)))


def run(fx, rep):
    m = EvalModel(fx)
    run_model(m, rep)
    # the evaluator's arms decide the property only if the tree has the operands where the source has them:
    # the parser's construction of `?:`, `&&`, `||` nodes (C04 R3/R4/R7/R9) is re-checked here as a producer rule
    rep.rule('P1', 'producer rule: the parser builds `?:` as (condition, then, else) of its own children and `&&`/`||` chains in source order, without regrouping built sub-expressions')
    from . import c04
    from .report import Forwarder
    fw = Forwarder(rep, 'P1', r'^(R3/visit_expr/|R4/|R7/visit_(expr|conditionalOr|conditionalAnd)/|R9/|R3/labels/)', 'C04')
    c04.run(fx, fw)
    rep.check(fw.n >= 12, 'P1', 'parser-rules-evaluated', 'antlr/src/parser.rs', '%d parser-side instances' % fw.n, 'only %d parser-side instances evaluated (anchor lost)' % fw.n)
    # an "undeclared" error may only arise where a name is actually looked up (Ident arm, call dispatch): a pre-scan of a
    # sub-expression would report names of operands that are never evaluated (C19 R2 enumerates the sources)
    from . import c19
    fw2 = Forwarder(rep, 'P1', r'^R2/(source|no-other)', 'C19')
    c19.run(fx, fw2)
    rep.check(fw2.n >= 3, 'P1', 'undeclared-error-sources-evaluated', 'interpreter/src/objects.rs', '%d instances' % fw2.n, 'only %d instances of C19 R2 evaluated (anchor lost)' % fw2.n)
    rep.floor('S1', 4)
    rep.floor('S2', 4)
    rep.floor('S3', 4)
    rep.floor('S4', 9, '(17 evaluation sites of args[1]/args[2] today; merged arms may share sites)')
