"""Obligation bookkeeping, known-findings handling, evidence writing."""
import json, os, re, sys
from collections import OrderedDict, defaultdict


def load_known(path):
    """known_findings.txt:  'finding: property=Cnn key=<exact key> :: text'
    ('fixed:' lines are documentation and suppress nothing)."""
    known = {}
    if not os.path.exists(path):
        return known
    for line in open(path):
        line = line.strip()
        m = re.match(r'^finding:\s+property=(C\d+)\s+key=(\S+)\s*::\s*(.*)$', line)
        if m:
            known[(m.group(1), m.group(2))] = m.group(3)
    return known


class Collector:
    """Same recording API as Report, used to run a rule over the fixture crate."""
    def __init__(self):
        self.bad = defaultdict(list)
        self.good = defaultdict(list)
    def rule(self, *a): pass
    def note(self, *a): pass
    def analysed(self, *a, **k): pass
    def floor(self, *a, **k): pass
    def ok(self, rule, key, where='-', detail=''):
        self.good[rule].append(key)
    def violation(self, rule, key, where, detail):
        self.bad[rule].append(key)
    def check(self, cond, rule, key, where, detail_ok='', detail_bad=''):
        (self.ok if cond else self.violation)(rule, key, where, detail_ok)
        return cond


def expect_fixture_hits(rep, col, expected):
    """expected: rule -> list of substrings, each of which must occur in some violation key of that rule"""
    for rule, subs in expected.items():
        for sub in subs:
            hit = any(sub in k for k in col.bad.get(rule, []))
            rep.check(hit, 'fixture', '%s/fires-on/%s' % (rule, sub), 'fixtures/',
                      'rule %s fires on its positive example' % rule,
                      'rule %s no longer fires on the fixture containing %r (dead rule)' % (rule, sub))


class Forwarder:
    """Runs another property's rules as producer rules of this one: instances whose 'rule/key' matches `select`
    are recorded in `rep` under rule `as_rule` (key prefixed with the origin), everything else is dropped."""
    def __init__(self, rep, as_rule, select, origin):
        self.rep, self.as_rule, self.select, self.origin = rep, as_rule, re.compile(select), origin
        self.n = 0
    def rule(self, *a): pass
    def note(self, *a): pass
    def analysed(self, *a, **k): pass
    def floor(self, *a, **k): pass
    def _k(self, rule, key):
        return '%s-%s/%s' % (self.origin, rule, key)
    def ok(self, rule, key, where='-', detail=''):
        if self.select.search('%s/%s' % (rule, key)):
            self.n += 1
            self.rep.ok(self.as_rule, self._k(rule, key), where, detail)
    def violation(self, rule, key, where, detail):
        if self.select.search('%s/%s' % (rule, key)):
            self.n += 1
            self.rep.violation(self.as_rule, self._k(rule, key), where, detail)
    def check(self, cond, rule, key, where, detail_ok='', detail_bad=''):
        if cond:
            self.ok(rule, key, where, detail_ok)
        else:
            self.violation(rule, key, where, detail_bad)
        return cond


def producer_rules(fx, rep, text, sources, floor):
    """sources: list of (module name, origin label, regex over 'rule/key'); runs those property modules with a Forwarder
    so that the selected instances become rule P1 of the calling check"""
    import importlib
    if isinstance(rep, (Forwarder, Collector)):
        return 0            # producer rules are not transitive: a forwarded module contributes its own rules only
    rep.rule('P1', text)
    n = 0
    for mod, origin, select in sources:
        fw = Forwarder(rep, 'P1', select, origin)
        importlib.import_module('rules.' + mod).run(fx, fw)
        n += fw.n
    rep.check(n >= floor, 'P1', 'producer-instances-evaluated', '-', '%d instances of other checks\' rules evaluated as producer rules' % n, 'only %d producer-rule instances evaluated, expected at least %d (anchor lost)' % (n, floor))
    return n


class Report:
    def __init__(self, pid, tier, seed, level):
        self.pid, self.tier, self.seed, self.level = pid, tier, seed, level
        self.inst = OrderedDict()       # (rule,key) -> dict(ok, where, detail, configs)
        self.per_config = defaultdict(lambda: defaultdict(int))
        self.config = None
        self.configs = []
        self.facts_hash = None
        self.functions = set()
        self.call_sites = 0
        self.notes = []
        self.rules_doc = OrderedDict()
        self.fixture_fired = OrderedDict()

    # ---- configuration scoping
    def begin_config(self, name, facts):
        self.config = name
        self.configs.append(name)
        self.facts = facts

    def end_config(self):
        self.config = None

    # ---- recording
    def rule(self, rule, text):
        self.rules_doc[rule] = text

    def _rec(self, rule, key, ok, where, detail):
        k = (rule, key)
        e = self.inst.get(k)
        if e is None:
            e = self.inst[k] = {'ok': ok, 'where': where, 'detail': detail, 'configs': []}
        else:
            if not ok and e['ok']:
                e.update(ok=False, where=where, detail=detail)
        if self.config and self.config not in e['configs']:
            e['configs'].append(self.config)
        self.per_config[self.config][rule] += 1

    def ok(self, rule, key, where='-', detail=''):
        self._rec(rule, key, True, where, detail)

    def violation(self, rule, key, where, detail):
        self._rec(rule, key, False, where, detail)

    def check(self, cond, rule, key, where, detail_ok='', detail_bad=''):
        if cond:
            self.ok(rule, key, where, detail_ok)
        else:
            self.violation(rule, key, where, detail_bad or detail_ok)
        return cond

    def floor(self, rule, n, what=''):
        """fail closed when a rule matched fewer sites than were confirmed by hand"""
        got = self.per_config[self.config][rule]
        if got < n:
            self.violation('floor', '%s/instances<%d' % (rule, n), '-',
                           'anchor lost: rule %s matched %d site(s) in config %s, at least %d were confirmed by hand %s'
                           % (rule, got, self.config, n, what))

    def analysed(self, body=None, calls=0):
        if body is not None:
            self.functions.add(body if isinstance(body, str) else body.path)
        self.call_sites += calls

    def fixture(self, rule, fired):
        self.fixture_fired[rule] = bool(fired)
        if not fired:
            self.violation('fixture', '%s/did-not-fire' % rule, 'fixtures/', 'rule %s no longer fires on its positive example' % rule)

    def note(self, s):
        if s not in self.notes:
            self.notes.append(s)

    # ---- finishing
    @staticmethod
    def _out(*a):
        try:
            print(*a)
        except BrokenPipeError:
            pass            # the reader went away (e.g. `| head`); the verdict is the exit status and the evidence file

    def finish(self, known, evdir, wall, checker_cmd, mod):
        os.makedirs(evdir, exist_ok=True)
        viol, kf = [], []
        for (rule, key), e in self.inst.items():
            if e['ok']:
                continue
            full = '%s/%s' % (rule, key)
            if (self.pid, full) in known:
                kf.append((full, e, known[(self.pid, full)]))
            else:
                viol.append((full, e))
        total = len(self.inst)
        good = sum(1 for e in self.inst.values() if e['ok'])
        # human-readable
        self._out('== %s %s: %d obligations (%d discharged, %d known findings, %d violations); configs=%s; %d functions, %d call sites inspected'
              % (self.pid, self.tier, total, good, len(kf), len(viol), ','.join(self.configs), len(self.functions), self.call_sites))
        byrule = defaultdict(lambda: [0, 0])
        for (rule, key), e in self.inst.items():
            byrule[rule][0 if e['ok'] else 1] += 1
        for r, (a, b) in byrule.items():
            self._out('   rule %-14s ok=%-4d bad=%-3d %s' % (r, a, b, self.rules_doc.get(r, '')[:110]))
        for full, e, text in kf:
            self._out('KNOWN-FINDING: property=%s %s %s -- %s' % (self.pid, full, e['where'], text))
        replay = os.path.join(evdir, '%s.violations.txt' % self.pid)
        with open(replay, 'w') as f:
            for full, e in viol:
                f.write('%s\t%s\t%s\n' % (full, e['where'], e['detail']))
            for full, e, text in kf:
                f.write('# known finding: %s\t%s\t%s\n' % (full, e['where'], text))
        for full, e in viol:
            self._out('  violation %s at %s: %s' % (full, e['where'], e['detail']))
        samples = []
        for (rule, key), e in list(self.inst.items()):
            if len(samples) >= 12:
                break
            if sum(1 for s in samples if s['rule'] == rule) >= 2:
                continue
            samples.append({'rule': rule, 'key': key, 'where': e['where'], 'verdict': 'ok' if e['ok'] else 'violation',
                            'detail': e['detail'][:300]})
        cov = {
            'evaluations': sum(sum(d.values()) for d in self.per_config.values()),
            'distinct_nontrivial': total,
            'rule': 'one evaluation = one rule instance (a call site, cast, match arm, impl, type or path) examined in one feature '
                    'configuration; distinct = distinct position-free keys; every instance is a construct of /repo named by a rule, none is trivial padding',
            'samples': samples,
            'obligations': total,
            'discharged': good,
            'known_findings': len(kf),
            'checker_cmd': checker_cmd,
            'trusted_base': getattr(mod, 'TRUSTED', ['rustc nightly (name/type resolution, MIR construction)', 'reviewed tables under /verif/tables and in the rule modules']),
            'explanation': getattr(mod, 'EXPLANATION', ''),
            'rules': self.rules_doc,
            'per_rule': {r: {'ok': a, 'bad': b} for r, (a, b) in byrule.items()},
            'functions_analysed': len(self.functions),
            'functions': sorted(self.functions)[:80],
            'call_sites': self.call_sites,
            'configs': self.configs,
            'facts_hash': self.facts_hash,
            'fixtures_fired': self.fixture_fired,
            'notes': self.notes,
            'exhaustive': True,
        }
        ev = {
            'property_id': self.pid, 'tier': self.tier, 'seed': self.seed, 'level': self.level,
            'coverage': cov,
            'assumptions': getattr(mod, 'ASSUMPTIONS', []),
            'wall_s': round(wall, 2),
            'violations': len(viol),
        }
        with open(os.path.join(evdir, '%s.json' % self.pid), 'w') as f:
            json.dump(ev, f, indent=1)
        if viol:
            self._out('VIOLATION property=%s replay=%s' % (self.pid, replay))
            return 1
        return 0
