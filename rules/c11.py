"""C11 — variables resolve to the innermost binding and scopes never leak."""
from . import facts as F
from .evalmodel import EvalModel
from .witness import run_witnesses

LEVEL = 'other'
TRUSTED = ['rustc nightly (MIR, borrow checker for the witnesses)', 'std HashMap get/insert contracts']
EXPLANATION = ('R1: Context::get_variable consults the child\'s own map first and the parent only on the miss edge; the root consults only its own map. R2: add_variable* insert only into a map owned by *self; '
               'the parent is a shared reference and Context has no interior mutability (C05), witnessed by E0502/E0597 compile_fail programs. R3: the comprehension evaluates iter_range and accu_init with the '
               'incoming context, strictly before new_inner_scope; loop_cond, loop_step and result with the inner scope; all variable writes of the evaluator target that inner scope. R4: function operations touch '
               'only the `functions` field and variable operations only `variables`. The sequence semantics follows from R1-R2 for any sequence of operations; that inference is not a run.')
ASSUMPTIONS = ['C05 O2 (no interior mutability in Context) is required for "inner scopes never alter their parents"']

CTX = 'cel_interpreter::context::Context'


def ctx_fields(b):
    """names of Context fields touched in a body"""
    out = set()
    def scan_place(pl):
        for e in pl['p']:
            if e['k'] == 'Field' and e.get('adt') == CTX:
                out.add(e.get('name'))
    def scan_op(o):
        if o['k'] in ('Copy', 'Move'):
            scan_place(o['place'])
    for bi in b.live_blocks():
        blk = b.blocks[bi]
        for s in blk['stmts']:
            if s['k'] != 'Assign':
                continue
            scan_place(s['place'])
            rv = s['rv']
            for k in ('place',):
                if k in rv:
                    scan_place(rv[k])
            for k in ('op', 'l', 'r', 'a'):
                if k in rv and isinstance(rv[k], dict):
                    scan_op(rv[k])
            for o in rv.get('ops', []):
                scan_op(o)
        t = blk['term']
        for o in t.get('args', []):
            scan_op(o)
        if 'discr' in t:
            scan_op(t['discr'])
    return out


def is_own_map(term, variant=None):
    return term[0] == 'f' and term[2] == 'variables' and term[1][0] == 'dc' and term[1][1] == ('param', 1) and (variant is None or term[1][2] == variant)


def run(fx, rep):
    # "the iteration variable denotes the current element" needs the loop to bind it on every iteration before the body runs: C10 R2
    from .report import producer_rules
    producer_rules(fx, rep, 'producer rule: the comprehension loop binds the iteration variable to the current item before every step and the accumulator after it (C10 R2)',
                   [('c10', 'C10', r'^R2/.*(iter_var|accu_var|binds)')], 4)
    rep.rule('R1', 'lookup: own map first, parent only on a miss; root consults only its own map')
    rep.rule('R2', 'writes go to the map owned by *self only')
    rep.rule('R3', 'comprehension: range/init in the outer scope before the inner scope exists; cond/step/result in the inner scope; writes target the inner scope')
    rep.rule('R4', 'function and variable namespaces use disjoint fields')
    gv = [b for b in fx.bodies.values() if F.norm_path(b.path) == CTX + '::get_variable']
    if len(gv) != 1:
        raise F.Lost('Context::get_variable not found')
    b = gv[0]
    rep.analysed(b, calls=sum(1 for _ in b.calls()))
    pv = F.Prov(b)
    gets = [(bi, t, pv.of_operand(t['args'][0])) for bi, t in b.calls() if F.norm_callee(t) == 'std::collections::HashMap::get']
    child = [g for g in gets if all(is_own_map(x, 'Child') for x in g[2])]
    root = [g for g in gets if all(is_own_map(x, 'Root') for x in g[2])]
    rep.check(len(child) == 1 and len(root) == 1 and len(gets) == 2, 'R1', 'lookups', b.loc(), 'one lookup in the child map, one in the root map',
              'unexpected lookups in get_variable: %s' % [[F.term_str(x) for x in g[2]] for g in gets])
    rec = [(bi, t) for bi, t in b.calls() if F.norm_path((t.get('callee') or {}).get('res') or (t.get('callee') or {}).get('path', '')) == CTX + '::get_variable']
    okk = len(rec) == 1 and len(child) == 1
    why = ''
    if okk:
        rbi, rt = rec[0]
        cbi, ct, _ = child[0]
        okk = all(x == ('f', ('dc', ('param', 1), 'Child'), 'parent') for x in pv.of_operand(rt['args'][0]))
        why = 'recursion target is not self.parent'
        if okk:
            okk = b.dominates(cbi, rbi)
            why = 'the parent is consulted without consulting the own map first'
        if okk:
            # on the Some edge of the own lookup the recursion must be unreachable
            st = None
            for sb in sorted(b.live_blocks()):
                tt = b.blocks[sb]['term']
                if tt['k'] == 'SwitchInt' and b.dominates(cbi, sb):
                    ts = pv.of_operand(tt['discr'])
                    if all(x[0] == 'discr' and x[1][0] == 'call' and x[1][3] == cbi for x in ts):
                        st = tt
                        break
            okk = st is not None
            why = 'no match on the result of the own lookup'
            if okk:
                some_t = [a[1] for a in st['arms'] if int(a[0]) == 1]
                some_t = some_t[0] if some_t else st['otherwise']
                okk = rbi not in b.reachable_from([some_t])
                why = 'the parent is consulted although the own map has the name (outer binding wins)'
    rep.check(okk, 'R1', 'child-first-then-parent', b.loc(), 'parent only on the miss edge of the own lookup', why)
    if root:
        rbi_root = root[0][0]
        # root arm: no parent access, miss -> UndeclaredReference
        okk = not rec or rec[0][0] not in b.reachable_from([rbi_root])
        rep.check(okk, 'R1', 'root-own-map-only', b.loc(), 'root scope looks only at its own map', 'root arm recurses')
    # ---------------- R2
    for nm in ('add_variable', 'add_variable_from_value'):
        bs = [x for x in fx.bodies.values() if F.norm_path(x.path) == CTX + '::' + nm]
        if len(bs) != 1:
            raise F.Lost('Context::%s not found' % nm)
        wb = bs[0]
        rep.analysed(wb)
        wpv = F.Prov(wb)
        ins = [(bi, t) for bi, t in wb.calls() if F.norm_callee(t) in ('std::collections::HashMap::insert', 'std::collections::HashMap::entry', 'std::collections::HashMap::remove',
                                                                       'std::collections::HashMap::get_mut', 'std::collections::HashMap::clear', 'std::collections::HashMap::extend', 'std::iter::Extend::extend')]
        for bi, t in ins:
            ts = wpv.of_operand(t['args'][0])
            okk = all(is_own_map(x) for x in ts)
            rep.check(okk, 'R2', '%s/%s/%s' % (nm, F.norm_callee(t).rsplit('::', 1)[-1], '|'.join(sorted(F.term_str(x) for x in ts))), F.loc_of(t['span']),
                      'writes the map owned by *self', 'write through %s: not the scope\'s own map' % [F.term_str(x) for x in ts])
        nins = [t for bi, t in ins if F.norm_callee(t) == 'std::collections::HashMap::insert']
        rep.check(len(nins) >= 1 and len(nins) == len(ins), 'R2', '%s/insert-only' % nm, wb.loc(), '%d insert(s) into the own map, no other kind of write' % len(nins),
                  '%s writes through %s: only HashMap::insert of the new binding is expected' % (nm, sorted({F.norm_callee(t).rsplit('::', 1)[-1] for bi, t in ins})))
        # the new binding is written on every path: a skipped write leaves a stale value visible
        wr = {bi for bi, t in wb.calls() if F.norm_callee(t) == 'std::collections::HashMap::insert'
              and all(F.term_contains(x, lambda y: y == ('param', 3)) for x in wpv.of_operand(t['args'][2]))}
        # a failed conversion of the value (`?`) legitimately returns without writing
        errs = {bi for bi, t in wb.calls() if F.norm_callee(t) == 'std::ops::FromResidual::from_residual'}
        rets = {bi for bi, _ in wb.terms('Return')}
        leak = rets & wb.reachable_from([0], blocked=wr | errs)
        rep.check(bool(wr) and not leak, 'R2', '%s/writes-on-every-path' % nm, wb.loc(), 'every path to the return inserts the given value',
                  '%s can return without inserting the given value (%d insert site(s) of the parameter): a re-binding may be skipped and the old value stays visible' % (nm, len(wr)))
        # no &mut derived from parent
        muts = [s for _, _, s in wb.stmts() if s['k'] == 'Assign' and s['rv']['k'] == 'Ref' and s['rv']['mut'] and any(e.get('name') == 'parent' for e in s['rv']['place']['p'])]
        rep.check(not muts, 'R2', '%s/no-mutable-parent-access' % nm, wb.loc(), 'parent never borrowed mutably', 'mutable access through `parent`')
    ctx_adt = fx.adt(CTX)
    par = [f for v in ctx_adt['variants'] if v['name'] == 'Child' for f in v['fields'] if f['name'] == 'parent']
    rep.check(len(par) == 1 and par[0]['ty'].startswith('&') and not par[0]['ty'].startswith('&mut') and "mut " not in par[0]['ty'][:8], 'R2', 'parent-is-shared-ref', F.loc_of(ctx_adt['span']),
              'Child.parent: %s' % (par[0]['ty'] if par else '?'), 'Child.parent is not a shared reference')
    # ---------------- R3
    m = EvalModel(fx)
    ev = m.b
    rep.analysed(ev)
    inner = [(bi, t) for bi, t in ev.calls() if F.norm_callee(t) == CTX + '::new_inner_scope']
    rep.check(len(inner) == 1 and all(x == ('param', 2) for x in m.pv.of_operand(inner[0][1]['args'][0])), 'R3', 'one-inner-scope-of-ctx', ev.loc(),
              'ctx.new_inner_scope() once', 'comprehension does not open exactly one inner scope of the incoming context')
    if inner:
        ibi = inner[0][0]
        def is_inner(ts):
            return bool(ts) and all(x[0] == 'call' and x[1] == CTX + '::new_inner_scope' and x[3] == ibi for x in ts)
        for s in m.sites():
            for p in s['paths']:
                if not p.startswith('Comprehension.'):
                    continue
                fld = p.split('.', 1)[1]
                if fld in ('iter_range', 'accu_init'):
                    okk = all(x == ('param', 2) for x in s['ctx']) and ev.dominates(s['block'], ibi)
                    rep.check(okk, 'R3', '%s/outer-scope-before-inner' % fld, s['loc'], 'evaluated with the incoming context, before the inner scope exists',
                              '%s is evaluated in %s / not before new_inner_scope: the iteration variable or accumulator would be visible to it' % (fld, [F.term_str(x) for x in s['ctx']]))
                else:
                    okk = is_inner(s['ctx']) and ev.dominates(ibi, s['block'])
                    rep.check(okk, 'R3', '%s/inner-scope' % fld, s['loc'], 'evaluated with the inner scope',
                              '%s is evaluated with %s instead of the inner scope (iteration variable not visible / outer binding used)' % (fld, [F.term_str(x) for x in s['ctx']]))
        writes = [(bi, t) for bi, t in ev.calls() if F.norm_callee(t) in (CTX + '::add_variable', CTX + '::add_variable_from_value')]
        for bi, t in writes:
            ts = m.pv.of_operand(t['args'][0])
            name = m.pv.of_operand(t['args'][1])
            nm = '|'.join(sorted(str(F.term_str(x)).rsplit('.', 1)[-1] for x in name))
            rep.check(is_inner(ts), 'R3', 'write/%s' % nm, F.loc_of(t['span']), 'binds %s in the inner scope' % nm, 'the evaluator binds %s in %s (leaks into the enclosing scope)' % (nm, [F.term_str(x) for x in ts]))
        rep.check(len(writes) >= 5, 'R3', 'writes-found', ev.loc(), '%d variable writes in the evaluator' % len(writes), 'expected 5 variable writes (accu init + 2x(iter var, accu)) found %d' % len(writes))
    # ---------------- R4
    table = {'get_function': {'functions', 'parent'}, 'has_function': {'functions', 'parent'}, 'add_function': {'functions'},
             'get_variable': {'variables', 'parent'}, 'add_variable': {'variables'}, 'add_variable_from_value': {'variables'}}
    for nm, allowed in table.items():
        bs = [x for x in fx.bodies.values() if F.norm_path(x.path) == CTX + '::' + nm]
        if len(bs) != 1:
            raise F.Lost('Context::%s not found' % nm)
        used = ctx_fields(bs[0])
        rep.check(used <= allowed and bool(used), 'R4', '%s/fields' % nm, bs[0].loc(), 'touches %s' % sorted(used), '%s touches %s, allowed %s' % (nm, sorted(used), sorted(allowed)))
    rep.floor('R1', 3)
    rep.floor('R2', 9)
    rep.floor('R3', 7)
    rep.floor('R4', 6)


def run_once(rep, tier, repo, here):
    rep.rule('W', 'rustc-checked witnesses: a parent cannot be mutated while an inner scope borrows it, an inner scope cannot outlive its parent, inner writes need only &mut of the inner scope')
    run_witnesses(rep, 'W', 'c11', repo, here)
