"""C19 — reported references cover every name a program can look up.

Sibling agreement of two traversals (reference collector vs evaluator),
with completeness computed from the AST type definitions themselves."""
import re
from . import facts as F
from .evalmodel import EvalModel, short_path, ast_path, OPERATORS

LEVEL = 'other'
TRUSTED = ['rustc nightly (ADT definitions, MIR construction, callee resolution)', 'std HashSet::insert contract']
EXPLANATION = ('R1: from the ADT definitions, every field path below `Expr` whose type contains an expression (through Box/Option/Vec/EntryExpr) is enumerated; each must reach a recursive '
               '`_references` call in the collector (a new AST field is covered automatically) and the evaluator evaluates only such paths; R2: the evaluator constructs UndeclaredReference at exactly '
               'two sites (variable miss in the root scope with the Ident name, function miss with call.func_name) and the collector inserts every Ident name not starting with "@" into `variables` and every '
               'func_name into `functions` on every path; R3: every accumulator name built by the macro expanders starts with "@"; R4: every operator name the parser can emit has an evaluator arm at '
               'its arity from which the function registry lookup is unreachable, so an operator is never looked up as a function; R5: references() takes no context.')
ASSUMPTIONS = ['names looked up by host functions themselves are outside the claim', 'lexer IDENTIFIER cannot produce "@" (checked from the lexer ATN by C01/C04 machinery when available)']

AST = 'cel_parser::ast::'
IDED = 'cel_parser::ast::IdedExpr'
COLLECTOR = 'cel_parser::references::<impl cel_parser::ast::IdedExpr>::_references'


def strip_wrappers(ty):
    """(inner type, is_vec)"""
    vec = False
    while True:
        m = re.match(r'^std::boxed::Box<(.*)>$', ty) or re.match(r'^std::option::Option<(.*)>$', ty)
        if m:
            ty = m.group(1)
            continue
        m = re.match(r'^std::vec::Vec<(.*)>$', ty)
        if m:
            ty = m.group(1)
            vec = True
            continue
        return ty, vec


def expr_paths(fx):
    """all access paths (short_path notation) below Expr that hold an expression"""
    out = set()
    adts = {a['path']: a for a in fx.crate('cel_parser')['adts']}

    def walk(ty, prefix, depth=0):
        ty, vec = strip_wrappers(ty)
        if vec:
            prefix = prefix + '[*]'
        if ty == IDED:
            out.add(prefix)
            return
        if ty in adts and depth < 8:
            a = adts[ty]
            for v in a['variants']:
                for f in v['fields']:
                    p = prefix
                    if a['kind'] == 'enum':
                        p = (p + '.' if p else '') + v['name']
                    if f['name'] not in ('0', 'expr'):
                        p = (p + '.' if p else '') + f['name']
                    walk(f['ty'], p, depth + 1)
    walk(AST + 'Expr', '')
    return out


def find_collector(fx):
    c = [b for b in fx.bodies.values() if b.crate == 'cel_parser' and F.norm_path(b.path).endswith('::_references') and b.raw['kind'] == 'AssocFn']
    if len(c) != 1:
        raise F.Lost('reference collector `_references` not found (%d candidates)' % len(c))
    return c[0]


def run(fx, rep):
    # accumulators stay invisible only if the macro's cond/step/result are evaluated in the scope that binds them and the
    # result is evaluated after the loop on every normal exit: C11 R3, C10 R2
    from .report import producer_rules
    producer_rules(fx, rep, 'producer rule: the comprehension evaluates loop_cond, loop_step and result in the inner scope that binds the accumulator (C11 R3, C10 R2)',
                   [('c11', 'C11', r'^R3/'), ('c10', 'C10', r'^R2/(result-after-loop|every-normal-exit|.*accu_var)')], 6)
    rep.rule('R1', 'every expression-typed field of every Expr variant reaches a recursive collector call; the evaluator evaluates only such fields')
    rep.rule('R2', 'name sinks of the collector cover the two UndeclaredReference sources of the evaluator')
    rep.rule('R3', 'macro accumulators are "@"-prefixed')
    rep.rule('R4', 'every operator the parser can emit has an evaluator arm at its arity that never reaches the function registry')
    rep.rule('R5', 'references() does not depend on a context')
    paths = expr_paths(fx)
    col = find_collector(fx)
    rep.analysed(col, calls=sum(1 for _ in col.calls()))
    pv = F.Prov(col)
    visited = set()
    for bi, t in col.calls():
        if F.resolved_callee(t) and F.norm_path(col.path) == F.resolved_callee(t):
            for term in pv.of_operand(t['args'][0]):
                visited.add(short_path(ast_path(term)))
    for p in sorted(paths):
        rep.check(p in visited, 'R1', 'collector-visits/%s' % p, col.loc(), 'reaches a recursive _references call',
                  'expression field %s is never visited by the reference collector: names used only there are not reported' % p)
    # the visit of a field may depend only on the shape of the node on its own access path (variant dispatch, the
    # Some-ness of an optional child, the availability of a list element), never on another field's value
    from .c01 import edge_conditions
    for bi, t in col.calls():
        if not (F.resolved_callee(t) and F.norm_path(col.path) == F.resolved_callee(t)):
            continue
        ps = sorted({short_path(ast_path(term)) for term in pv.of_operand(t['args'][0])})
        bad = []
        for term, truth in edge_conditions(col, pv, bi):
            tt = term
            okc = False
            if tt[0] == 'discr':
                okc = True            # match on a variant / Option / iterator item
            elif tt[0] == 'call' and tt[1] in ('std::option::Option::is_some', 'std::option::Option::is_none'):
                okc = True
            if not okc:
                bad.append(F.term_str(tt)[:80])
        for p_ in ps:
            rep.check(not bad, 'R1', 'collector-visits-unconditionally/%s' % p_, F.loc_of(t['span']), 'visited whenever the node has this child',
                      'the visit of %s is conditional on %s: names used only there are not reported in that case' % (p_, bad))
    for p in sorted(visited - paths):
        rep.violation('R1', 'collector-unknown-path/%s' % p, col.loc(), 'collector recurses into %s, which is not an expression field by the type definitions (model out of date: fail closed)' % p)
    m = EvalModel(fx)
    for s in m.sites():
        for p in s['paths']:
            p = re.sub(r'\[\d+\]', '[*]', p)
            if p not in paths and s['callee'].endswith('resolve_all') and (p + '[*]') in paths:
                p = p + '[*]'          # a whole Vec<Expression> handed to resolve_all, which evaluates every element
            rep.check(p in paths, 'R1', 'evaluator-evaluates/%s' % p, s['loc'], 'an expression field (covered by the collector: %s)' % (p in visited),
                      'evaluator evaluates %s which is not an expression field by the type definitions (fail closed)' % p)
    # list elements are evaluated in a closure
    # ---------------- R6 accessors of the report
    rep.rule('R6', 'the report hands out what was collected: variables and functions are not crossed, dropped or filtered between the collector and the accessors')
    ER = 'cel_parser::references::ExpressionReferences'
    for meth, field, reader in (('has_variable', 'variables', 'std::collections::HashSet::contains'), ('has_function', 'functions', 'std::collections::HashSet::contains'),
                                ('variables', 'variables', 'std::collections::HashSet::iter'), ('functions', 'functions', 'std::collections::HashSet::iter')):
        bs = [x for x in fx.bodies.values() if re.sub(r"::<'_>", '', F.norm_path(x.path)) == ER + '::' + meth]
        if len(bs) != 1:
            raise F.Lost('ExpressionReferences::%s not found' % meth)
        ab = bs[0]
        rep.analysed(ab)
        apv = F.Prov(ab)
        reads = [sorted(F.term_str(x) for x in apv.of_operand(t['args'][0])) for bi, t in ab.calls() if F.norm_callee(t) == reader]
        filt = sorted({F.norm_callee(t) for bi, t in ab.calls() if re.search(r'::(filter|filter_map|skip|skip_while|take|take_while|step_by|retain)$', F.norm_callee(t) or '')})
        rep.check(reads == [['arg1.%s' % field]] and not filt, 'R6', 'accessor/%s' % meth, ab.loc(), '%s reads self.%s' % (meth, field),
                  '%s reads %s%s, expected self.%s unfiltered' % (meth, reads, (' filtered by %s' % filt) if filt else '', field))
    rb = [x for x in fx.bodies.values() if x.crate == 'cel_parser' and x.path.endswith('::references') and 'IdedExpr' in x.path and not x.path.endswith('_references')]
    if len(rb) != 1:
        raise F.Lost('IdedExpr::references not found')
    rb = rb[0]
    rpv = F.Prov(rb, transparent={})
    r6calls = [(bi, t) for bi, t in rb.calls() if (F.norm_callee(t) or '').endswith('::_references')]
    r6agg = [st for _, _, st in rb.stmts() if st['k'] == 'Assign' and st['rv']['k'] == 'Aggregate' and (st['rv'].get('adt') or '').endswith('ExpressionReferences')]
    okk = len(r6calls) == 1 and len(r6agg) == 1
    if okk:
        def ident(o):
            return {x[3] for x in rpv.of_operand(o) if x[0] == 'call'}
        t = r6calls[0][1]
        fields = dict(zip(r6agg[0]['rv']['fields'], r6agg[0]['rv']['ops']))
        v_in, f_in = ident(t['args'][1]), ident(t['args'][2])
        okk = bool(v_in) and bool(f_in) and v_in != f_in and ident(fields['variables']) == v_in and ident(fields['functions']) == f_in and \
            all(x == ('param', 1) for x in rpv.of_operand(t['args'][0]))
    rep.check(okk, 'R6', 'references/sets-handed-over', rb.loc(), 'the set filled as `variables` becomes .variables, likewise functions; the collector starts at self',
              'references() does not hand the two collected sets to the fields of the same name (or does not start at the whole expression)')
    rep.floor('R1', 30)
    # ---------------- R2 sources
    srcs = []
    for b in fx.bodies.values():
        if b.crate != 'cel_interpreter' or b.raw['kind'] == 'Promoted' or b.is_derived():
            continue
        for bi, j, s in b.stmts():
            if s['k'] == 'Assign' and s['rv']['k'] == 'Aggregate' and s['rv'].get('variant') == 'UndeclaredReference':
                srcs.append((b, s))
    for b, s in srcs:
        np = F.norm_path(b.path)
        bpv = F.Prov(b)
        name_terms = sorted(F.term_str(x) for x in bpv.of_operand(s['rv']['ops'][0]))
        why = None
        if np == 'cel_interpreter::ExecutionError::undeclared_reference':
            why = 'public constructor (host use)'
        elif b.raw.get('parent') and F.norm_path(b.raw['parent']) == 'cel_interpreter::context::Context::get_variable' and all('arg1' in x for x in name_terms):
            why = 'variable miss in the root scope (names the looked-up variable)'
        elif np == 'cel_interpreter::context::Context::get_variable' and all('arg2' in x for x in name_terms):
            why = 'variable miss in the root scope (names the looked-up variable)'
        elif (np == 'cel_interpreter::objects::Value::resolve' or (b.raw.get('parent') and F.norm_path(b.raw['parent']) == 'cel_interpreter::objects::Value::resolve')) and all('func_name' in x for x in name_terms):
            why = 'function miss (names call.func_name)'
        key = re.sub(r'\{closure#\d+\}', '{closure}', np)
        rep.check(why is not None, 'R2', 'source/%s' % key, F.loc_of(s['span']), why or '',
                  'UndeclaredReference(%s) constructed in %s: a new source of undeclared-reference errors that the collector may not cover' % (name_terms, np))
    # callers of the helper constructor inside the crate
    for b in fx.bodies.values():
        if b.crate != 'cel_interpreter':
            continue
        for bi, t in b.calls():
            if F.norm_callee(t) == 'cel_interpreter::ExecutionError::undeclared_reference':
                rep.violation('R2', 'source-via-helper/%s' % F.norm_path(b.path), F.loc_of(t['span']), 'undeclared_reference() called inside the crate from %s' % b.path)
    # the function-miss closure names call.func_name; the variable miss names the looked-up name
    ev = m.b
    gv = [(bi, t) for bi, t in ev.calls() if F.norm_callee(t) == 'cel_interpreter::context::Context::get_variable']
    okk = len(gv) == 1 and all(short_path(ast_path(x)) == 'Ident' for x in m.pv.of_operand(gv[0][1]['args'][1]))
    rep.check(okk, 'R2', 'variable-lookup-name', gv[0][1]['span'] and F.loc_of(gv[0][1]['span']) if gv else ev.loc(), 'get_variable(Ident name)', 'the evaluator looks up a variable name that is not the Ident payload')
    gf = [(bi, t) for bi, t in ev.calls() if F.norm_callee(t) == 'cel_interpreter::context::Context::get_function']
    okk = len(gf) == 1 and all(short_path(ast_path(x)) == 'Call.func_name' for x in m.pv.of_operand(gf[0][1]['args'][1]))
    rep.check(okk, 'R2', 'function-lookup-name', F.loc_of(gf[0][1]['span']) if gf else ev.loc(), 'get_function(call.func_name)', 'the evaluator looks up a function name that is not call.func_name')
    other_gv = [(b.path) for b in fx.bodies.values() if b.crate == 'cel_interpreter' and b is not ev
                for bi, t in b.calls() if F.norm_callee(t) in ('cel_interpreter::context::Context::get_variable',) and F.norm_path(b.path) != 'cel_interpreter::context::Context::get_variable']
    rep.check(not other_gv, 'R2', 'no-other-variable-lookups', '-', 'only the evaluator looks variables up', 'variable lookups outside the evaluator: %s' % other_gv)
    # sinks
    ins = [(bi, t) for bi, t in col.calls() if F.norm_callee(t) == 'std::collections::HashSet::insert']
    var_ins = [(bi, t) for bi, t in ins if all(x == ('param', 2) for x in pv.of_operand(t['args'][0]))]
    fn_ins = [(bi, t) for bi, t in ins if all(x == ('param', 3) for x in pv.of_operand(t['args'][0]))]
    okv = len(var_ins) == 1 and all(short_path(ast_path(x)) == 'Ident' for x in pv.of_operand(var_ins[0][1]['args'][1]))
    rep.check(okv, 'R2', 'sink/variables<-Ident', col.loc(), 'variables.insert(Ident name)', 'the collector does not insert the Ident name into `variables`')
    okf = len(fn_ins) == 1 and all(short_path(ast_path(x)) == 'Call.func_name' for x in pv.of_operand(fn_ins[0][1]['args'][1]))
    rep.check(okf, 'R2', 'sink/functions<-func_name', col.loc(), 'functions.insert(call.func_name)', 'the collector does not insert call.func_name into `functions`')
    # control conditions of the sinks
    sw0 = col.blocks[0]['term']
    if okf:
        # straight-line from the Call arm entry
        arm_entries = set(a[1] for a in sw0['arms']) | {sw0['otherwise']} if sw0['k'] == 'SwitchInt' else set()
        blk = fn_ins[0][0]
        cur, okstraight = None, False
        for e in arm_entries:
            cur = e
            steps = 0
            while steps < 6:
                if cur == blk:
                    okstraight = True
                    break
                su = col.succ(cur)
                if len(su) != 1:
                    break
                cur = su[0]
                steps += 1
            if okstraight:
                break
        rep.check(okstraight, 'R2', 'sink/functions-unconditional', F.loc_of(fn_ins[0][1]['span']), 'inserted unconditionally in the Call arm', 'functions.insert is conditional')
    if okv:
        blk = var_ins[0][0]
        # the only branch between the Ident arm entry and the insert tests starts_with('@')
        preds_sw = []
        seen = set()
        stack = [blk]
        while stack:
            x = stack.pop()
            for p in col.pred(x):
                if p in seen or p == 0:
                    continue
                seen.add(p)
                if col.blocks[p]['term']['k'] == 'SwitchInt':
                    preds_sw.append(p)
                else:
                    stack.append(p)
        okg = len(preds_sw) == 1
        if okg:
            st = col.blocks[preds_sw[0]]['term']
            dts = pv.of_operand(st['discr'])
            def is_sw(x):
                while x[0] == 'unop':
                    x = x[2]
                return x[0] == 'call' and x[1] == 'core::str::<impl str>::starts_with' and ('const', '@') in x[2]
            okg = all(is_sw(x) for x in dts)
        rep.check(okg, 'R2', 'sink/variables-guard-is-@', F.loc_of(var_ins[0][1]['span']), 'skipped only when the name starts with "@"',
                  'variables.insert is guarded by something other than starts_with(\'@\')')
    # ---------------- R3
    n = 0
    for b in fx.bodies.values():
        if b.crate != 'cel_parser' or b.raw['kind'] == 'Promoted' or b.is_derived():
            continue
        bpv = None
        for bi, j, s in b.stmts():
            if s['k'] == 'Assign' and s['rv']['k'] == 'Aggregate' and s['rv'].get('adt') == AST + 'ComprehensionExpr':
                bpv = bpv or F.Prov(b)
                idx = s['rv']['fields'].index('accu_var')
                ts = bpv.of_operand(s['rv']['ops'][idx])
                n += 1
                okk = all(x[0] == 'const' and isinstance(x[1], str) and x[1].startswith('@') for x in ts)
                rep.check(okk, 'R3', 'accu_var/%s' % F.norm_path(b.path).rsplit('::', 1)[-1], F.loc_of(s['span']), 'accumulator %s' % sorted(F.term_str(x) for x in ts),
                          'accumulator variable %s is not a constant starting with "@": it could be reported as a reference or shadow a user variable' % sorted(F.term_str(x) for x in ts))
    rep.floor('R3', 5, '(all, exists, exists_one, map, filter)')
    # a source identifier can never start with (or contain) '@': lexer ATN of IDENTIFIER / ESC_IDENTIFIER
    from .grammar import Grammar
    from . import atn as A
    gl = Grammar(fx, 'lexer')
    for rule in ('IDENTIFIER',):
        if rule not in gl.rule_idx:
            raise F.Lost('lexer rule %s not found' % rule)
        chars = set()
        todo = [rule]
        seen_rules = set()
        while todo:
            r_ = todo.pop()
            if r_ in seen_rules:
                continue
            seen_rules.add(r_)
            for e in A.rule_edges(gl.atn, gl.rule_idx[r_]):
                if e['type'] == A.RULE:
                    todo.append(gl.rules[e['rule']])
                else:
                    lab = A.labels(e)
                    if lab:
                        chars |= A.interval_members(lab)
        rep.check(ord('@') not in chars and bool(chars), 'R3', 'lexer/%s-cannot-contain-@' % rule, 'gen/cellexer.rs', '%d admissible characters, none is "@"' % len(chars),
                  'the lexer rule %s admits "@": a source identifier could collide with a macro accumulator' % rule)
    # ---------------- R4
    arms = m.arms()
    disp = {d['block'] for d in m.dispatch_sites()}
    reg_lookup = {bi for bi, t in ev.calls() if F.norm_callee(t) == 'cel_interpreter::context::Context::get_function'}
    emitted = set()
    for b in fx.bodies.values():
        if b.crate != 'cel_parser' or '/gen/' in b.loc():
            continue
        for bi, j, s in b.stmts():
            if s['k'] != 'Assign':
                continue
            ops = []
            rv = s['rv']
            if rv['k'] == 'Use':
                ops = [rv['op']]
            elif rv['k'] == 'Aggregate':
                ops = rv['ops']
            for o in ops:
                if o['k'] == 'Const' and isinstance(o.get('val'), str) and o['val'] in OPERATORS:
                    emitted.add(o['val'])
        for bi, t in b.calls():
            for o in t['args']:
                if o['k'] == 'Const' and isinstance(o.get('val'), str) and o['val'] in OPERATORS:
                    emitted.add(o['val'])
    # the OPERATORS table (static array) of find_operator
    for c in fx.crate('cel_parser')['consts']:
        if c['path'].startswith('cel_parser::ast::operators::') and c.get('val') in OPERATORS:
            emitted.add(c['val'])
    for opv in sorted(emitted):
        nm, arity = OPERATORS[opv]
        if opv not in arms:
            rep.violation('R4', 'arm/%s' % nm, '-', 'operator %s (%s) can be emitted by the parser but has no evaluator arm: it would be looked up as a function' % (nm, opv))
            continue
        a = arms[opv]
        # arity guard: test block dominated by the true edge of args.len() == arity
        okar = False
        for sb in sorted(ev.live_blocks()):
            st = ev.blocks[sb]['term']
            if st['k'] != 'SwitchInt' or not ev.dominates(sb, a['test_block']):
                continue
            for x in m.pv.of_operand(st['discr']):
                if x[0] == 'binop' and x[1] == 'Eq' and x[3] == ('const', arity) and x[2][0] == 'call' and x[2][1] == 'std::vec::Vec::len':
                    tt = [tg for v, tg in st['arms'] if int(v) == 0]
                    false_t = tt[0] if tt else st['otherwise']
                    true_t = st['otherwise'] if false_t != st['otherwise'] else [tg for v, tg in st['arms'] if int(v) != 0][0]
                    if a['test_block'] in ev.reachable_from([true_t]) and a['test_block'] not in ev.reachable_from([false_t], blocked={true_t}):
                        okar = True
        reach = ev.reachable_from([a['entry']])
        okret = not (reach & disp) and not (reach & reg_lookup)
        rep.check(okar and okret, 'R4', 'arm/%s' % nm, a['loc'], 'arm at arity %d, registry unreachable' % arity,
                  'operator %s: %s' % (nm, 'arm is not guarded by args.len() == %d' % arity if not okar else 'function registry lookup reachable from the arm (operator could be reported/looked up as a function)'))
    rep.floor('R4', 19, '(19 operators)')
    # ---------------- R5
    refs = [b for b in fx.bodies.values() if F.norm_path(b.path) in ('cel_interpreter::Program::references', 'cel_parser::references::<impl cel_parser::ast::IdedExpr>::references')]
    for b in refs:
        rep.check(b.argc == 1 and 'Context' not in b.raw.get('sig', ''), 'R5', 'signature/%s' % F.norm_path(b.path), b.loc(), b.raw.get('sig', ''), 'references() takes more than &self')
    rep.floor('R5', 2)
