"""Shared access to the decoded parser/lexer ATNs and their names (from the compiled program)."""
from . import facts as F
from . import atn as A


class Grammar:
    def __init__(self, fx, which):
        mod = 'cel_parser::gen::cel%s::' % which          # 'parser' | 'lexer'
        consts = {c['path']: c for c in fx.crate('cel_parser')['consts']}
        c = consts.get(mod + '_serializedATN')
        if not c or 'val' not in c:
            raise F.Lost('%s_serializedATN not found' % mod)
        try:
            self.atn = A.decode(c['val'])
        except A.ATNError as e:
            raise F.Lost('cannot decode %s ATN: %s' % (which, e))
        nb = fx.body(mod + 'ruleNames')
        self.rules = [o.get('val') for _, _, s in nb.stmts() if s['k'] == 'Assign' and s['rv']['k'] == 'Aggregate' for o in s['rv']['ops']]
        if len(self.rules) != len(self.atn.rule_start):
            raise F.Lost('%s ruleNames (%d) do not match the ATN (%d rules)' % (which, len(self.rules), len(self.atn.rule_start)))
        self.rule_idx = {n: i for i, n in enumerate(self.rules)}
        self.tok = {-1: 'EOF'}
        for c in fx.crate('cel_parser')['consts']:
            nm = c['path'].rsplit('::', 1)[-1]
            if c['path'].startswith(mod) and c['ty'] == 'isize' and 'val' in c and not nm.startswith('RULE_'):
                self.tok[c['val']] = nm
        self.tok_idx = {v: k for k, v in self.tok.items()}

    def paths(self, rule, limit=2, cap=600, codepoints=False):
        """label sequences from the start to the stop state of a rule, every state visited at most `limit` times"""
        a = self.atn
        r = self.rule_idx[rule]
        start, stop = a.rule_start[r], a.rule_stop[r]
        out = set()

        def go(st, seq, seen):
            if len(out) > cap:
                return
            if st == stop:
                out.add(tuple(seq))
                return
            if seen.get(st, 0) >= limit:
                return
            seen = dict(seen)
            seen[st] = seen.get(st, 0) + 1
            for e in a.states[st]['trans']:
                if e['type'] == A.RULE:
                    go(e['follow'], seq + [('rule', self.rules[e['rule']], e['precedence'])], seen)
                elif e['type'] == A.PRECEDENCE:
                    go(e['trg'], seq + [('prec', e['precedence'])], seen)
                else:
                    lab = A.labels(e)
                    if lab is None:
                        go(e['trg'], seq, seen)
                    else:
                        go(e['trg'], seq + [('tok', frozenset((chr(x) if x >= 0 else 'EOF') if codepoints else self.tok.get(x, str(x)) for x in A.interval_members(lab)))], seen)
        go(start, [], {})
        if len(out) > cap:
            raise F.Lost('too many paths in rule %s' % rule)
        return out


def show(seq):
    out = []
    for x in seq:
        if x[0] == 'rule':
            out.append('%s(%d)' % (x[1], x[2]))
        elif x[0] == 'prec':
            out.append('<prec %d>' % x[1])
        else:
            out.append('|'.join(sorted(x[1])))
    return ' '.join(out)
