"""C02 — executing any program returns a value or an error (audited panic ledger)."""
import re
from . import facts as F
from . import panics as P

LEVEL = 'other'
TRUSTED = ['rustc nightly (MIR: Assert terminators, resolved callees)', 'rules/panics.py PANIC_CALLS: the reviewed deny-list of std/chrono APIs documented to panic',
           'tables/panic_ledger.json: reviewed reasons for the remaining edges']
EXPLANATION = ('Every construct through which the interpreter\'s own code can panic - MIR Assert terminators (overflow, bounds, division), calls into the core::panicking family (panic!/todo!/unreachable!/assert!) and calls of '
               'std/chrono APIs documented to panic (unwrap/expect, Index impls, slicing, windows/chunks, Vec::remove/insert, String::truncate, chrono operator impls and range-panicking constructors, ...) - in objects.rs, '
               'functions.rs, magic.rs, resolvers.rs, duration.rs, context.rs and lib.rs is an obligation. It is discharged by an automatic guard rule (constant index under a dominating length test, Result<_, Infallible>, usize counter + 1, '
               'constant non-zero divisor, constant arithmetic, window size = len of a slice known to be non-empty) or by a ledger entry with a reason read from the code; producer rules re-check the reasons that depend on other '
               'functions. Any new edge is a violation naming function, kind and operand. This is the conservative direction: no unaudited panic edge implies no panic from repository code modulo the deny-list; termination and stack depth are not decided.')
ASSUMPTIONS = ['termination and stack exhaustion (recursion on AST depth) are not decided', 'allocation failure, panics inside host closures and inside dependencies beyond the deny-list are outside the claim',
               'an infeasible new edge would be reported (accepted: it is the only sound direction for "never panics"); matching is move-tolerant and keys carry no positions']

# every source file of the interpreter crate (also ones added later) except the two audited by their own checks: ser.rs (C17 R3), json.rs (C18 R3)
FILES = re.compile(r'^interpreter/src/(?!(ser|json)\.rs)')


def scope(fx):
    return [b for b in sorted(fx.bodies.values(), key=lambda x: (x.loc(), x.path)) if b.crate == 'cel_interpreter' and b.raw['kind'] != 'Promoted' and not b.is_derived() and FILES.match(b.loc())]


def run(fx, rep):
    rep.rule('L', 'every panic edge of the interpreter is discharged by a guard rule or an audited ledger entry')
    rep.rule('P1', 'producer rule: AllArguments::resolve returns only Value::List')
    rep.rule('P2', 'producer rule: a StructField entry can only occur inside Expr::Struct')
    rep.rule('P3', 'producer rule: the interpreter never constructs a placeholder expression')
    ledger = P.load_ledger()
    bodies = scope(fx)
    edges = P.audit(fx, rep, 'L', bodies, ledger, 'exec')
    rep.floor('L', 45, '(panic edges of the interpreter incl. ~45 guarded argument indexings; fewer without chrono)')
    # ---- P1
    b = fx.body('<cel_interpreter::resolvers::AllArguments as cel_interpreter::resolvers::Resolver>::resolve')
    pv = F.Prov(b)
    oks = []
    for bi, ts in pv.per_def(0):
        for t in ts:
            if t[0] == 'agg' and t[1].endswith('Result::Ok'):
                oks.append(t[2][0])
    okk = bool(oks) and all(x[0] == 'agg' and x[1] == 'cel_interpreter::objects::Value::List' for x in oks)
    rep.check(okk, 'P1', 'AllArguments-returns-List', b.loc(), 'every Ok is Value::List', 'AllArguments::resolve can return %s: the `_ => todo!()` in Arguments::from_context becomes reachable' % [F.term_str(x)[:60] for x in oks])
    # ---- P2
    sf, mp, st = [], [], []
    for pb in fx.bodies.values():
        if pb.crate != 'cel_parser' or pb.raw['kind'] == 'Promoted' or pb.is_derived():
            continue
        ppv = None
        for bi, j, s in pb.stmts():
            if s['k'] == 'Assign' and s['rv']['k'] == 'Aggregate':
                ad, va = s['rv'].get('adt', ''), s['rv'].get('variant')
                if ad == 'cel_parser::ast::EntryExpr' and va == 'StructField':
                    sf.append(F.norm_path(pb.path))
                if ad == 'cel_parser::ast::MapExpr':
                    ppv = ppv or F.Prov(pb)
                    for x in ppv.of_operand(s['rv']['ops'][0]):
                        mp.append((F.norm_path(pb.path), x))
    okk = len(set(sf)) == 1 and bool(mp)
    srcs = set()
    for fn, x in mp:
        if x[0] == 'call' and isinstance(x[1], str) and x[1].startswith('cel_parser::'):
            srcs.add(x[1])
            okk = okk and x[1] not in sf
        elif x[0] == 'call' and x[1] in ('std::default::Default::default', 'std::vec::Vec::new'):
            srcs.add('<empty>')
        else:
            okk = False
            srcs.add('? ' + F.term_str(x)[:50])
    rep.check(okk, 'P2', 'StructField-only-in-Struct', 'antlr/src/parser.rs', 'StructField built in %s; Expr::Map entries come from %s' % (sorted(set(sf)), sorted(srcs)),
              'a StructField entry may reach Expr::Map (StructField built in %s, map entries from %s): panic!("WAT?") becomes reachable' % (sorted(set(sf)), [F.term_str(x)[:60] for _, x in mp]))
    # ---- P3
    bad = []
    for ib in fx.bodies.values():
        if ib.crate != 'cel_interpreter' or ib.raw['kind'] == 'Promoted' or ib.is_derived():
            continue
        for bi, j, s in ib.stmts():
            if s['k'] == 'Assign' and s['rv']['k'] == 'Aggregate' and s['rv'].get('adt') == 'cel_parser::ast::Expr' and s['rv'].get('variant') == 'Unspecified':
                bad.append(ib.path)
        for bi, t in ib.calls():
            if F.norm_callee(t) == 'std::default::Default::default' and any('IdedExpr' in a or a.endswith('ast::Expr') for a in (t['callee'].get('args') or [])):
                bad.append(ib.path)
    rep.check(not bad, 'P3', 'no-placeholder-built-by-interpreter', '-', 'no Expr::Unspecified / IdedExpr::default() in cel_interpreter', 'the interpreter constructs placeholder expressions in %s' % bad)
