"""C04 — parsing preserves CEL precedence, associativity and grouping.

Grammar-automaton analysis (decoded ATN) + agreement of the generated Rust with it + dataflow rules over the visitor."""
import json, os, re
from . import facts as F
from .grammar import Grammar, show
from .absint import Unmodelled

LEVEL = 'other'
TRUSTED = ['rustc nightly (MIR, constants)', 'ANTLR 4 ATN serialisation format v3 (fail closed otherwise) and antlr4rust\'s adaptive prediction', 'tables/reference/precedence.json (CEL precedence table of the property)']
EXPLANATION = ('R1: from the decoded parser ATN, rule nesting start>expr>conditionalOr>conditionalAnd>relation>calc>unary>member>primary, `?:` right associative (else branch re-enters expr, condition/then are conditionalOr), '
               '`||`/`&&` flat lists of the next tighter rule, start consumes EOF; R2: the left-recursive rules have exactly the operator classes of the table, each under precedence n with the right operand parsed at n+1 (left associativity), '
               'multiplicative above additive, and the generated Rust (precpred(_, n) / *_rec(k) constants) carries the same (n, k) pairs as the ATN; R3: the visitor builds call nodes with operands in source order '
               '(child 0 then child 1; condition, then, else; member then index; receiver then arguments in list order), the operator text table equals the reference and the token literals; the labelled children e/e1/e2 are bound in source order by the generated parser; '
               'R4: logical chains keep source order (terms pushed in index order, balanced_tree puts terms[mid]/left recursion first and terms[mid+1]/right recursion second); '
               'R5: the result of Parser::visit is never dropped and an even number of prefix operators returns the operand itself, an odd number wraps it once; R6: macro expansion places receiver and arguments unchanged (leaves of the C10 templates). '
               'The round trip parse(render(t)) == t itself is not decided.')
ASSUMPTIONS = ['antlr4rust\'s ATN interpreter (adaptive prediction) follows the embedded ATN', 'the index arithmetic of balanced_tree (mid) is value-level: only the left/right placement is decided']

HERE = os.path.dirname(os.path.dirname(os.path.abspath(__file__)))
VISITOR = "<cel_parser::parser::Parser as cel_parser::gen::celvisitor::CELVisitorCompat<'_>>::"
GEN = 'cel_parser::gen::celparser::'


def visitor(fx, name):
    p = VISITOR + name
    if p not in fx.bodies:
        c = [b for b in fx.bodies.values() if b.path.endswith('::' + name) and 'CELVisitorCompat' in b.path and 'parser.rs' in b.loc()]
        if len(c) != 1:
            raise F.Lost('visitor method %s not found' % name)
        return c[0]
    return fx.bodies[p]


def terms(pv, o):
    return sorted(F.term_str(x) for x in pv.of_operand(o))


def array_elems(pv, o):
    """element term strings of a vec![..] operand"""
    out = []
    for x in pv.of_operand(o):
        if x[0] == 'stored' and x[1][0] == 'agg' and x[1][1] == 'Array':
            out.append([F.term_str(e) for e in x[1][2]])
    return out


def run(fx, rep):
    ref = json.load(open(os.path.join(HERE, 'tables/reference/precedence.json')))
    rep.rule('R1', 'rule nesting, ternary right associativity, flat logical lists, EOF (parser ATN)')
    rep.rule('R2', 'precedence levels / left associativity of relation, calc, member in the ATN and in the generated Rust')
    rep.rule('R3', 'operand order in the visitor; operator text table; label binding')
    rep.rule('R4', 'logical chains keep source order')
    rep.rule('R5', 'visit results are never dropped; prefix-operator parity')
    rep.rule('R6', 'macros expand around their operands')
    g = Grammar(fx, 'parser')
    chain = ref['chain']
    # ---------------- R1
    P = {r: g.paths(r) for r in chain[:-1]}
    rep.check(P['start'] == {(('rule', 'expr', 0), ('tok', frozenset(['EOF'])))}, 'R1', 'start=expr-EOF', 'gen/celparser.rs', 'start: expr EOF',
              'start rule is %s: a trailing token could be accepted' % sorted(show(p) for p in P['start']))
    t = ref['ternary']
    want = {(('rule', t['condition'], 0),), (('rule', t['condition'], 0), ('tok', frozenset([t['question']])), ('rule', t['then'], 0), ('tok', frozenset([t['colon']])), ('rule', t['else'], 0))}
    rep.check(P['expr'] == want, 'R1', 'ternary/right-associative', 'gen/celparser.rs', 'expr: conditionalOr (? conditionalOr : expr)?',
              'expr rule is %s: `?:` is not the loosest right-associative operator over conditionalOr' % sorted(show(p) for p in P['expr']))
    for rule, spec in ref['flat'].items():
        okk = True
        for p in P[rule]:
            ok1 = len(p) % 2 == 1 and all(x == ('rule', spec['operand'], 0) for x in p[0::2]) and all(x == ('tok', frozenset([spec['token']])) for x in p[1::2])
            okk = okk and ok1
        okk = okk and any(len(p) > 1 for p in P[rule])
        rep.check(okk, 'R1', 'flat/%s' % rule, 'gen/celparser.rs', '%s: %s (%s %s)*' % (rule, spec['operand'], spec['token'], spec['operand']),
                  '%s rule is %s' % (rule, sorted(show(p) for p in P[rule])))
    # chain: every path of rule i starts with rule i+1 (unary: after prefix tokens)
    for i, rule in enumerate(chain[:-1]):
        nxt = chain[i + 1]
        okk = True
        for p in P[rule]:
            q = list(p)
            if rule == ref['prefix']['rule']:
                while q and q[0][0] == 'tok':
                    q.pop(0)
            okk = okk and bool(q) and q[0][0] == 'rule' and q[0][1] == nxt and q[0][2] == 0
        rep.check(okk, 'R1', 'nesting/%s>%s' % (rule, nxt), 'gen/celparser.rs', 'every alternative of %s starts with %s' % (rule, nxt),
                  'rule %s does not nest %s as its tighter level: %s' % (rule, nxt, sorted(show(p) for p in P[rule])[:4]))
    # prefix
    pf = ref['prefix']
    okk = True
    kinds = set()
    for p in P[pf['rule']]:
        toks = [x for x in p if x[0] == 'tok']
        names = {n for x in toks for n in x[1]}
        kinds |= names
        okk = okk and len(names) <= 1 and all(len(x[1]) == 1 for x in toks) and p[-1] == ('rule', pf['operand'], 0)
    rep.check(okk and kinds == set(pf['tokens']), 'R1', 'prefix/unary', 'gen/celparser.rs', 'unary: member | !+ member | -+ member', 'unary rule is %s' % sorted(show(p) for p in P[pf['rule']]))
    # ---------------- R2 (ATN)
    atn_pairs = {}
    for rule, spec in ref['left_assoc'].items():
        classes = {}
        okk = True
        for p in P[rule]:
            if len(p) == 1:
                okk = okk and p[0] == ('rule', spec['operand'], 0)
                continue
            # operand <prec n> TOKS rule(k)
            if not (len(p) == 4 and p[0] == ('rule', spec['operand'], 0) and p[1][0] == 'prec' and p[2][0] == 'tok' and p[3][0] == 'rule' and p[3][1] == rule):
                okk = False
                continue
            classes[frozenset(p[2][1])] = (p[1][1], p[3][2])
        want_classes = [frozenset(c) for c in spec['classes']]
        okk = okk and set(classes) == set(want_classes)
        rep.check(okk, 'R2', 'atn/%s/operator-classes' % rule, 'gen/celparser.rs', '; '.join('%s @%d -> %s(%d)' % ('|'.join(sorted(c)), n, rule, k) for c, (n, k) in classes.items()),
                  '%s: operator classes in the grammar automaton are %s, the table says %s' % (rule, [sorted(c) for c in classes], spec['classes']))
        for c, (n, k) in classes.items():
            rep.check(k == n + 1, 'R2', 'atn/%s/%s/left-assoc' % (rule, '|'.join(sorted(c))[:30]), 'gen/celparser.rs', 'level %d, right operand parsed at %d' % (n, k),
                      '%s: operators %s at level %d parse their right operand at %d (must be %d for left associativity)' % (rule, sorted(c), n, k, n + 1))
        atn_pairs[rule] = sorted(classes.values())
        if len(want_classes) == 2 and set(classes) == set(want_classes):
            lo, hi = classes[want_classes[0]][0], classes[want_classes[1]][0]
            rep.check(hi > lo, 'R2', 'atn/%s/multiplicative-above-additive' % rule, 'gen/celparser.rs', 'additive level %d < multiplicative level %d' % (lo, hi),
                      'multiplicative operators (level %d) do not bind tighter than additive ones (level %d)' % (hi, lo))
    # member suffixes
    pm = ref['postfix']
    sfx = {}
    for p in P[pm['rule']]:
        if len(p) > 1 and p[1][0] == 'prec' and p[2][0] == 'tok':
            sfx.setdefault(p[1][1], set()).update(p[2][1])
    rep.check(len(sfx) == 3 and set().union(*sfx.values()) == set(pm['suffix_first_tokens']), 'R2', 'atn/member/suffixes', 'gen/celparser.rs', 'select/call/index suffixes at levels %s' % sorted(sfx),
              'member suffixes in the automaton: %s' % sfx)
    atn_pairs['member'] = sorted((n, None) for n in sfx)
    # ---------------- R2 (generated Rust agrees with the ATN)
    for rule in ('relation', 'calc', 'member'):
        cl = [b for b in fx.bodies.values() if b.crate == 'cel_parser' and re.search(r'::%s_rec::\{closure#0\}$' % rule, b.path)]
        if len(cl) != 1:
            raise F.Lost('generated %s_rec closure not found' % rule)
        b = cl[0]
        rep.analysed(b, calls=sum(1 for _ in b.calls()))
        pp = [(bi, F.op_const(t['args'][-1])) for bi, t in b.calls() if F.norm_callee(t) == 'antlr4rust::Parser::precpred']
        rc = [(bi, F.op_const(t['args'][-1])) for bi, t in b.calls() if F.norm_callee(t) == GEN + 'CELParser::%s_rec' % rule]
        pairs = []
        for bi, n in pp:
            ks = [k for cb, k in rc if b.dominates(bi, cb) and not any(b.dominates(o, cb) and b.dominates(bi, o) and o != bi for o, _ in pp)]
            pairs.append((n, ks[0] if len(ks) == 1 else None))
        rep.check(sorted(pairs, key=lambda x: x[0]) == atn_pairs[rule], 'R2', 'rust/%s/precpred-and-rec-constants' % rule, b.loc(), 'precpred/rec constants %s equal the automaton' % sorted(pairs),
                  'generated %s_rec uses (precpred level, right-call precedence) %s, the automaton says %s' % (rule, sorted(pairs, key=lambda x: x[0]), atn_pairs[rule]))
        wrap = [b2 for b2 in fx.bodies.values() if F.norm_path(b2.path) == GEN + 'CELParser::' + rule]
        okk = len(wrap) == 1 and [F.op_const(t['args'][-1]) for bi, t in wrap[0].calls() if F.norm_callee(t) == GEN + 'CELParser::%s_rec' % rule] == [0]
        rep.check(okk, 'R2', 'rust/%s/entry-precedence-0' % rule, wrap[0].loc() if wrap else '-', '%s() = %s_rec(0)' % (rule, rule), '%s() does not start at precedence 0' % rule)
    # ---------------- R3
    table = {
        'visit_relation': ('global_call_or_macro', None, ['visit(arg1, relation(arg2, const(0)))', 'visit(arg1, relation(arg2, const(1)))']),
        'visit_calc': ('global_call_or_macro', None, ['visit(arg1, calc(arg2, const(0)))', 'visit(arg1, calc(arg2, const(1)))']),
        'visit_expr': ('global_call_or_macro', "const('_?_:_')", ['visit(arg1, arg2.e)', 'visit(arg1, arg2.e1)', 'visit(arg1, arg2.e2)']),
        'visit_Index': ('global_call_or_macro', "const('_[_]')", ['visit(arg1, member(arg2))', 'visit(arg1, arg2.index)']),
        'visit_LogicalNot': ('global_call_or_macro', "const('!_')", ['visit(arg1, member(arg2))']),
        'visit_Negate': ('global_call_or_macro', "const('-_')", ['visit(arg1, member(arg2))']),
    }
    for name, (callee, opname, elems) in table.items():
        b = visitor(fx, name)
        rep.analysed(b, calls=sum(1 for _ in b.calls()))
        pv = F.Prov(b)
        cs = [(bi, t) for bi, t in b.calls() if (F.norm_callee(t) or '').endswith('Parser::' + callee)]
        okk = len(cs) == 1
        detail = '%d call node constructions' % len(cs)
        if okk:
            t = cs[0][1]
            got_op = terms(pv, t['args'][2])
            got_el = array_elems(pv, t['args'][3])
            if opname is None:
                okk = got_op == ['find_operator(get_text(arg2.op))']
            else:
                okk = got_op == [opname]
            okk = okk and got_el == [elems]
            detail = 'operator %s, operands %s' % (got_op, got_el)
        rep.check(okk, 'R3', '%s/operands-in-source-order' % name, b.loc(), detail, '%s builds its call node as %s, expected operator %s with operands %s' % (name, detail, opname or 'find_operator(op text)', elems))
        # every value the method returns is that node, a child passed through, or the placeholder that follows a reported error
        allowed = ('Parser::' + callee, 'Parser::report_error', 'Parser::visit', 'ParseTreeVisitorCompat::visit', 'ParseTreeVisitorCompat::visit_children', 'std::default::Default::default')
        other = set()
        for _, ts in pv.per_def(0):
            for r in ts:
                if r[0] == 'call' and not any((r[1] or '').endswith(a) for a in allowed):
                    other.add(r[1])
                elif r[0] not in ('call',):
                    other.add(F.term_str(r)[:60])
        rep.check(not other, 'R3', '%s/returns-only-that-node' % name, b.loc(), 'returns the operator node, a visited child or the error placeholder',
                  '%s also returns a tree built by %s: the operator/operand structure of the source is not what is evaluated' % (name, sorted(map(str, other))))
    def args_in_order(b, pv, operand):
        """the argument vector is the visited children of the expression list, in list order: either the
        iter().flat_map(..).map(visit).collect() chain or a forward loop pushing visit(item) onto a fresh vector"""
        ts = terms(pv, operand)
        if ts and all(re.match(r'^collect\(map\(flat_map\(iter\(arg2\.args\), ', x) for x in ts):
            return True
        if ts and all(x in ('new()', 'default()', 'with_capacity(len(arg2.args))') or x.startswith('with_capacity(') for x in ts):
            pushes = [terms(pv, t['args'][1]) for bi, t in b.calls() if (F.norm_callee(t) or '').endswith('Vec::push') and 'IdedExpr' in t['arg_tys'][0]]
            reorder = [F.norm_callee(t) for bi, t in b.calls() if re.search(r'::(rev|rfold|next_back|reverse|sort\w*|swap|insert|rotate_\w+|pop|swap_remove|dedup\w*|retain)$', F.norm_callee(t) or '')
                       and ('IdedExpr' in t['arg_tys'][0] or 'ExprContext' in t['arg_tys'][0] or 'Iter<' in t['arg_tys'][0])]
            return len(pushes) == 1 and not reorder and all(re.match(r'^visit\(arg1, item\(.*arg2\.args.*\)\)$|^visit\(arg1, item\(.*\.e\)\)$', x) for x in pushes[0])
        return False
    b = visitor(fx, 'visit_MemberCall')
    pv = F.Prov(b)
    cs = [(bi, t) for bi, t in b.calls() if (F.norm_callee(t) or '').endswith('Parser::receiver_call_or_macro')]
    okk = len(cs) == 1
    if okk:
        t = cs[0][1]
        okk = terms(pv, t['args'][2]) == ['get_text(arg2.id)'] and terms(pv, t['args'][3]) == ['visit(arg1, member(arg2))'] and args_in_order(b, pv, t['args'][4])
    rep.check(okk, 'R3', 'visit_MemberCall/receiver-name-args', b.loc(), 'receiver = member, name = id text, args in list order', 'member call is not built from (member, id, args in order)')
    b = visitor(fx, 'visit_GlobalCall')
    pv = F.Prov(b)
    cs = [(bi, t) for bi, t in b.calls() if (F.norm_callee(t) or '').endswith('Parser::global_call_or_macro')]
    okk = len(cs) == 1 and args_in_order(b, pv, cs[0][1]['args'][3])
    rep.check(okk, 'R3', 'visit_GlobalCall/args-in-list-order', b.loc(), 'args in list order', 'global call arguments are not taken in list order')
    # forward iteration of argument lists (no rev)
    for name in ('visit_MemberCall', 'visit_GlobalCall'):
        b = visitor(fx, name)
        revs = [F.norm_callee(t) for bi, t in b.calls() if (F.norm_callee(t) or '').endswith(('::rev', '::rfold', '::next_back'))]
        rep.check(not revs, 'R3', '%s/forward' % name, b.loc(), 'forward iteration', 'arguments iterated with %s' % revs)
    # the two call-node builders pass name/target/args through
    for fn, fields in (('global_call_or_macro', {'func_name': 'arg3', 'args': 'arg4', 'target': 'None{}'}), ('receiver_call_or_macro', {'func_name': 'arg3', 'target': 'Some{arg4}', 'args': 'arg5'})):
        bs = [x for x in fx.bodies.values() if F.norm_path(x.path) == 'cel_parser::parser::Parser::' + fn]
        if len(bs) != 1:
            raise F.Lost('Parser::%s not found' % fn)
        b = bs[0]
        rep.analysed(b)
        pv = F.Prov(b)
        agg = [s for _, _, s in b.stmts() if s['k'] == 'Assign' and s['rv']['k'] == 'Aggregate' and s['rv'].get('adt') == 'cel_parser::ast::CallExpr']
        okk = len(agg) == 1
        got = {}
        if okk:
            got = {k: '|'.join(terms(pv, o)) for k, o in zip(agg[0]['rv']['fields'], agg[0]['rv']['ops'])}
            okk = got == fields
        rep.check(okk, 'R3', '%s/CallExpr-fields' % fn, b.loc(), str(got), '%s builds CallExpr %s, expected %s' % (fn, got, fields))
        ex = [(bi, t) for bi, t in b.calls() if t.get('callee') is None]
        okk = len(ex) == 1
        if okk:
            a = [('|'.join(terms(pv, o))) for o in ex[0][1]['args']]
            okk = a[1:] == (['None{}', 'arg4'] if fn.startswith('global') else ['Some{arg4}', 'arg5'])
        rep.check(okk, 'R3', '%s/expander-arguments' % fn, b.loc(), 'expander(helper, target, args)', 'macro expander is not called with (target, args) unchanged')
    # operator text table
    ob = fx.bodies.get('cel_parser::ast::operators::OPERATORS')
    if ob is None:
        raise F.Lost('OPERATORS table not found')
    opv = F.Prov(ob)
    pairs = {}
    for _, _, s in ob.stmts():
        if s['k'] == 'Assign' and s['rv']['k'] == 'Aggregate' and s['rv']['agg'] == 'Tuple' and len(s['rv']['ops']) == 2:
            k = opv.of_operand(s['rv']['ops'][0])
            v = opv.of_operand(s['rv']['ops'][1])
            if len(k) == 1 and len(v) == 1:
                pairs[next(iter(k))[1]] = next(iter(v))[1]
    rep.check(pairs == ref['operators'], 'R3', 'find_operator/table', 'antlr/src/ast/operators.rs', '%d operator texts' % len(pairs), 'operator text table %s differs from the reference %s' % (pairs, ref['operators']))
    fo = fx.body('cel_parser::ast::operators::find_operator')
    fpv = F.Prov(fo)
    eqs = [(bi, t) for bi, t in fo.calls() if F.norm_callee(t) == 'std::cmp::PartialEq::eq']
    rets = sorted(F.term_str(x) for _, ts in fpv.per_def(0) for x in ts)
    okk = len(eqs) == 1 and any('item(' in x and '.1' in x for x in rets) and any(x == 'None{}' for x in rets)
    if okk:
        a0, a1 = terms(fpv, eqs[0][1]['args'][0]), terms(fpv, eqs[0][1]['args'][1])
        okk = (a1 == ['arg1'] and all('.0' in x for x in a0)) or (a0 == ['arg1'] and all('.0' in x for x in a1))
    rep.check(okk, 'R3', 'find_operator/lookup', fo.loc(), 'returns the operator of the entry whose text equals the input', 'find_operator does not return entry.1 of the entry with entry.0 == input (%s)' % rets)
    # token literals
    lb = fx.bodies.get(GEN + '_LITERAL_NAMES')
    if lb is None:
        raise F.Lost('_LITERAL_NAMES not found')
    lits = []
    lpv = F.Prov(lb)
    for _, _, s in lb.stmts():
        if s['k'] == 'Assign' and s['rv']['k'] == 'Aggregate' and s['rv'].get('adt') == 'std::option::Option':
            if s['rv']['variant'] == 'None':
                lits.append(None)
            else:
                v = lpv.of_operand(s['rv']['ops'][0])
                lits.append(next(iter(v))[1] if len(v) == 1 else '?')
    for tokname, text in ref['token_text'].items():
        idx = g.tok_idx.get(tokname)
        got = lits[idx] if idx is not None and idx < len(lits) else None
        rep.check(got == "'%s'" % text, 'R3', 'token-literal/%s' % tokname, 'gen/celparser.rs', '%s = %s' % (tokname, got), 'token %s has literal %s, expected %r' % (tokname, got, text))
    # label binding in the generated expr rule: e <- 1st conditionalOr, e1 <- 2nd conditionalOr, e2 <- expr (source order)
    cl = [b for b in fx.bodies.values() if b.crate == 'cel_parser' and re.search(r'CELParser::<.*>::expr::\{closure#0\}$', b.path)]
    if len(cl) != 1:
        raise F.Lost('generated expr closure not found')
    b = cl[0]
    rep.analysed(b)
    seq = []
    for bi in sorted(b.live_blocks()):
        t = b.blocks[bi]['term']
        if t['k'] == 'Call':
            n = F.norm_callee(t) or ''
            if n in (GEN + 'CELParser::conditionalOr', GEN + 'CELParser::expr'):
                seq.append((bi, 'parse:' + n.rsplit('::', 1)[-1]))
            if n.endswith('match_token') or n.endswith('::match_token'):
                c = [F.op_const(a) for a in t['args'] if F.op_const(a) is not None]
                seq.append((bi, 'tok:%s' % g.tok.get(c[0], c[0]) if c else 'tok:?'))
        for s in b.blocks[bi]['stmts']:
            if s['k'] == 'Assign' and s['place']['p']:
                fl = [e.get('name') for e in s['place']['p'] if e['k'] == 'Field' and e.get('adt', '').endswith('ExprContextExt')]
                if fl and fl[-1] in ('e', 'e1', 'e2', 'op'):
                    seq.append((bi, 'bind:' + fl[-1]))
    order = []
    for x in seq:
        if not order or order[-1][1] != x[1]:
            order.append(x)
    okk = True
    names = [x[1] for x in order]
    want = ['parse:conditionalOr', 'bind:e', 'tok:QUESTIONMARK', 'bind:op', 'parse:conditionalOr', 'bind:e1', 'tok:COLON', 'parse:expr', 'bind:e2']
    # dominance order must realise `want`
    idx = 0
    pos = []
    for w in want:
        while idx < len(order) and order[idx][1] != w:
            idx += 1
        if idx == len(order):
            okk = False
            break
        pos.append(order[idx][0])
        idx += 1
    okk = okk and all(b.dominates(pos[i], pos[i + 1]) for i in range(len(pos) - 1))
    rep.check(okk, 'R3', 'labels/expr-e-e1-e2-bound-in-source-order', b.loc(), ' -> '.join(want), 'the generated expr rule binds its labelled children as %s' % names)
    # ---------------- R4
    for name, opconst in (('visit_conditionalOr', '_||_'), ('visit_conditionalAnd', '_&&_')):
        b = visitor(fx, name)
        rep.analysed(b)
        pv = F.Prov(b)
        nl = [(bi, t) for bi, t in b.calls() if (F.norm_callee(t) or '').endswith('Parser::new_logic_manager')]
        at = [(bi, t) for bi, t in b.calls() if (F.norm_callee(t) or '').endswith('LogicManager::add_term')]
        okk = len(nl) == 1 and len(at) == 1
        if okk:
            okk = terms(pv, nl[0][1]['args'][1]) == ["const('%s')" % opconst] and 'visit(arg1, arg2.e)' in terms(pv, nl[0][1]['args'][2])
            okk = okk and terms(pv, at[0][1]['args'][2]) == ['visit(arg1, arg2.e1[?])']
            # the index into e1 is the enumerate counter of ops
            ix = [(bi, t) for bi, t in b.calls() if F.norm_callee(t) == 'std::ops::Index::index' and any('e1' in x for x in terms(pv, t['args'][0]))]
            okk = okk and len(ix) == 1 and all(re.match(r'^item\(enumerate\(.*arg2\.ops.*\)\)\.0$', x) for x in terms(pv, ix[0][1]['args'][1]))
        rep.check(okk, 'R4', '%s/terms-in-index-order' % name, b.loc(), 'first term e, then e1[i] for i = 0.. in order', '%s does not push its terms in source order' % name)
    for fn, want_calls in (('add_term', [['arg1.terms', 'arg3'], ['arg1.ops', 'arg2']]),):
        b = [x for x in fx.bodies.values() if F.norm_path(x.path) == 'cel_parser::parser::LogicManager::' + fn][0]
        pv = F.Prov(b)
        got = [[('|'.join(terms(pv, a))) for a in t['args']] for bi, t in b.calls() if F.norm_callee(t) == 'std::vec::Vec::push']
        rep.check(got == want_calls, 'R4', 'LogicManager::add_term/appends', b.loc(), 'terms.push(expr); ops.push(op_id)', 'add_term performs %s' % got)
    for lb in fx.bodies.values():
        if lb.crate == 'cel_parser' and re.match(r'^cel_parser::parser::LogicManager::\w+(::\{closure#\d+\})*$', F.norm_path(lb.path)):
            ro = sorted({F.norm_callee(t) for bi, t in lb.calls() if re.search(r'::(sort\w*|reverse|swap|rotate_\w+|retain|dedup\w*|swap_remove|rev|select_nth\w*|partition\w*)$', F.norm_callee(t) or '') and '::mem::' not in (F.norm_callee(t) or '')})
            if ro:
                rep.violation('R4', 'LogicManager/reorders-terms/%s' % F.norm_path(lb.path).rsplit('::', 1)[-1], lb.loc(), '%s reorders the terms of a logical chain with %s: `a && b` and `b && a` differ in what is skipped' % (F.norm_path(lb.path), ro))
    bt = [x for x in fx.bodies.values() if F.norm_path(x.path) == 'cel_parser::parser::LogicManager::balanced_tree']
    if len(bt) != 1:
        raise F.Lost('balanced_tree not found')
    b = bt[0]
    rep.analysed(b)
    pv = F.Prov(b)
    takes = {}

    def feeding_call(local, depth=0):
        ds = b.defs().get(local, [])
        if len(ds) != 1 or depth > 6:
            return None
        bi_, j_, d_ = ds[0]
        if j_ == 'term':
            return d_
        rv_ = d_['rv']
        if rv_['k'] in ('Ref', 'RawPtr', 'CopyForDeref'):
            return feeding_call(rv_['place']['l'], depth + 1)
        if rv_['k'] == 'Use' and rv_['op']['k'] in ('Copy', 'Move'):
            return feeding_call(rv_['op']['place']['l'], depth + 1)
        return None
    for bi, t in b.calls():
        if F.norm_callee(t) in ('std::mem::take', 'std::mem::replace'):
            l0 = F.op_local(t['args'][0])
            im = feeding_call(l0) if l0 is not None else None
            if im is not None and F.norm_callee(im) in ('std::ops::IndexMut::index_mut', 'std::ops::Index::index'):
                takes[bi] = (terms(pv, im['args'][0]), terms(pv, im['args'][1]))
    agg = [s for _, _, s in b.stmts() if s['k'] == 'Assign' and s['rv']['k'] == 'Aggregate' and s['rv'].get('adt') == 'cel_parser::ast::CallExpr']
    okk = len(agg) == 1 and len(takes) == 2
    left, right = set(), set()
    if okk:
        idx = agg[0]['rv']['fields'].index('args')
        for x in pv.of_operand(agg[0]['rv']['ops'][idx]):
            if x[0] == 'stored' and x[1][0] == 'agg' and len(x[1][2]) == 2:
                for side, e in ((left, x[1][2][0]), (right, x[1][2][1])):
                    if e[0] == 'call' and e[1] in ('std::mem::take', 'std::mem::replace') and e[3] in takes:
                        side.add(('take', tuple(takes[e[3]][1])))
                    elif e[0] == 'call' and F.norm_path(e[1]) == 'cel_parser::parser::LogicManager::balanced_tree':
                        side.add(('rec', F.term_str(e[2][1]), F.term_str(e[2][2])))
                    else:
                        side.add(('?', F.term_str(e)))
        mids = [t[1][0] for t in left if t[0] == 'take']
        mid = mids[0] if mids else None
        okk = mid is not None and left == {('take', (mid,)), ('rec', 'arg2', 'SubWithOverflow(%s, const(1)).0' % mid)} and \
            right == {('take', ('AddWithOverflow(%s, const(1)).0' % mid,)), ('rec', 'AddWithOverflow(%s, const(1)).0' % mid, 'arg3')}
    rep.check(okk, 'R4', 'balanced_tree/left-then-right', b.loc(), 'args = [terms[mid] | tree(lo, mid-1), terms[mid+1] | tree(mid+1, hi)]', 'balanced_tree places %s first and %s second' % (sorted(left), sorted(right)))
    ex = [x for x in fx.bodies.values() if F.norm_path(x.path) == 'cel_parser::parser::LogicManager::expr'][0]
    epv = F.Prov(ex)
    rc = [[('|'.join(terms(epv, a))) for a in t['args']] for bi, t in ex.calls() if F.norm_path(F.norm_callee(t) or '') == 'cel_parser::parser::LogicManager::balanced_tree']
    rep.check(rc == [['arg1', 'const(0)', 'SubWithOverflow(len(arg1.ops), const(1)).0']], 'R4', 'LogicManager::expr/whole-range', ex.loc(), 'balanced_tree(0, ops.len() - 1)', 'expr() builds the tree over %s' % rc)
    # ---------------- R5
    nvis = 0
    for vb in fx.bodies.values():
        if vb.crate != 'cel_parser' or 'parser.rs' not in vb.loc() or vb.raw['kind'] == 'Promoted' or vb.is_derived():
            continue
        for bi, t in vb.calls():
            n = F.norm_callee(t) or ''
            if n.endswith('ParseTreeVisitorCompat::visit') or n.endswith('ParseTreeVisitorCompat::visit_children'):
                nvis += 1
                d = t['dest']
                used = d['l'] == 0 or local_used(vb, d['l'], bi)
                rep.check(used, 'R5', 'visit-result-used/%s/%d' % (short(vb.path), sum(1 for k in getattr(rep, 'inst', {}) if k[0] == 'R5' and k[1].startswith('visit-result-used/%s/' % short(vb.path)))),
                          F.loc_of(t['span']), 'result used', 'the subtree built by this visit(..) is dropped: the parsed operand does not appear in the tree (in %s)' % short(vb.path))
    for name, opconst in (('visit_LogicalNot', '!_'), ('visit_Negate', '-_')):
        b = visitor(fx, name)
        pv = F.Prov(b)
        # switch on ops.len() % 2 == 0
        par = None
        for sb in sorted(b.live_blocks()):
            st = b.blocks[sb]['term']
            if st['k'] != 'SwitchInt':
                continue
            for x in pv.of_operand(st['discr']):
                if x[0] == 'binop' and x[1] in ('Eq', 'Ne') and x[3] in (('const', 0), ('const', 1)) and x[2][0] == 'binop' and x[2][1] == 'Rem' and x[2][3] == ('const', 2) and 'ops' in F.term_str(x[2][2]):
                    even_val = (x[1] == 'Eq') == (x[3] == ('const', 0))
                    tt = [a[1] for a in st['arms'] if int(a[0]) == 0]
                    f_t = tt[0] if tt else st['otherwise']
                    t_t = st['otherwise'] if f_t != st['otherwise'] else [a[1] for a in st['arms'] if int(a[0]) != 0][0]
                    par = (t_t, f_t) if even_val else (f_t, t_t)
        if par is None:
            rep.violation('R5', '%s/parity-test' % name, b.loc(), 'no `ops.len() % 2` test found (fail closed)')
            continue
        even_t, odd_t = par
        wraps = [bi for bi, t in b.calls() if (F.norm_callee(t) or '').endswith('Parser::global_call_or_macro')]
        even_r = b.reachable_from([even_t])
        odd_r = b.reachable_from([odd_t])
        rep.check(not any(w in even_r for w in wraps), 'R5', '%s/even-count-cancels' % name, b.loc(), 'an even number of operators builds no `%s` node' % opconst,
                  'with an even number of prefix operators a `%s` node is still built: `%s%sx` parses as `%sx`' % (opconst, opconst[0], opconst[0], opconst[0]))
        rep.check(sum(1 for w in wraps if w in odd_r) == 1, 'R5', '%s/odd-count-wraps-once' % name, b.loc(), 'an odd number wraps the operand once', 'odd number of prefix operators does not wrap exactly once')
        # even edge returns the visited member
        rets = set()
        for bi, ts in pv.per_def(0):
            if bi in even_r and bi not in odd_r:
                rets |= {F.term_str(x) for x in ts}
        rep.check(rets == {'visit(arg1, member(arg2))'}, 'R5', '%s/even-count-returns-operand' % name, b.loc(), 'returns the operand itself', 'on an even count the visitor returns %s' % sorted(rets))
    # ---------------- R7 who builds the node a visitor method returns
    rep.rule('R7', 'each visitor method returns a node built by its one designated constructor, a visited child, or the error placeholder')
    NEXT, GCM, RCM, LME, AGG = 'cel_parser::parser::ParserHelper::next_expr', 'cel_parser::parser::Parser::global_call_or_macro', 'cel_parser::parser::Parser::receiver_call_or_macro', 'cel_parser::parser::LogicManager::expr', 'IdedExpr{..}'
    SOURCES = {'visit_BoolFalse': {NEXT}, 'visit_BoolTrue': {NEXT}, 'visit_Bytes': {NEXT}, 'visit_ConstantLiteral': set(), 'visit_CreateList': {AGG}, 'visit_CreateMessage': {AGG}, 'visit_CreateStruct': {AGG},
               'visit_Double': {NEXT}, 'visit_GlobalCall': {GCM}, 'visit_Ident': {NEXT}, 'visit_Index': {GCM}, 'visit_Int': {NEXT}, 'visit_LogicalNot': {GCM}, 'visit_MemberCall': {RCM}, 'visit_MemberExpr': set(),
               'visit_Negate': {GCM}, 'visit_Nested': set(), 'visit_Null': {NEXT}, 'visit_PrimaryExpr': set(), 'visit_Select': {NEXT}, 'visit_String': {NEXT}, 'visit_Uint': {NEXT}, 'visit_calc': {GCM},
               'visit_conditionalAnd': {LME}, 'visit_conditionalOr': {LME}, 'visit_expr': {GCM}, 'visit_relation': {GCM}, 'visit_start': set()}
    PASS = ('antlr4rust::tree::ParseTreeVisitorCompat::visit', 'antlr4rust::tree::ParseTreeVisitorCompat::visit_children', 'cel_parser::parser::Parser::report_error', 'std::default::Default::default')
    present = sorted({re.search(r'::(visit_\w+)$', b.path).group(1) for b in fx.bodies.values() if b.crate == 'cel_parser' and 'parser.rs' in b.loc() and 'CELVisitorCompat' in b.path and re.search(r'::(visit_\w+)$', b.path)})
    for name in sorted(set(present) | set(SOURCES)):
        if name not in SOURCES:
            rep.violation('R7', '%s/not-in-table' % name, visitor(fx, name).loc(), 'visitor method %s is new: its node construction has not been reviewed against the grammar' % name)
            continue
        if name not in present:
            rep.violation('R7', '%s/missing' % name, 'antlr/src/parser.rs', 'visitor method %s no longer exists: the generated default (visit_children) applies to that alternative' % name)
            continue
        b = visitor(fx, name)
        pv = F.Prov(b)
        got = set()
        for _, ts in pv.per_def(0):
            for r in ts:
                if r[0] == 'call':
                    if r[1] not in PASS:
                        got.add(r[1])
                elif r[0] == 'agg' and (r[1] or '').endswith('IdedExpr'):
                    got.add(AGG)
                else:
                    got.add(F.term_str(r)[:60])
        rep.check(got == SOURCES[name], 'R7', '%s/result-source' % name, b.loc(), 'returns %s' % (sorted(got) or 'only visited children / error placeholders'),
                  '%s returns nodes built by %s, expected %s: the tree no longer mirrors the grammar alternative' % (name, sorted(map(str, got)), sorted(SOURCES[name])))
    rep.floor('R7', 28)
    # ---------------- R8 literals: elements, entries, fields in source order; key i paired with value i
    rep.rule('R8', 'list / map / message literals, select and identifier nodes: elements in source order, key i paired with value i, operand and field taken from their own children')
    REORDER = re.compile(r'::(rev|rfold|next_back|reverse|sort\w*|swap|insert|rotate_\w+|pop|swap_remove|dedup\w*|retain)$')
    def builder(fn):
        bs = [x for x in fx.bodies.values() if F.norm_path(x.path) == 'cel_parser::parser::Parser::' + fn]
        if len(bs) != 1:
            raise F.Lost('Parser::%s not found' % fn)
        return bs[0]
    def index_terms(b, pv):
        out = {}
        for bi, t in b.calls():
            if F.norm_callee(t) == 'std::ops::Index::index':
                base = '|'.join(terms(pv, t['args'][0]))
                out.setdefault(base, set()).update(terms(pv, t['args'][1]))
        return out
    for fn, want_push, counter_of, indexed in (
            ('list_initializer_list', 'visit(arg1, item(arg2.elems).e)', None, ()),
            ('map_initializer_list', 'IdedEntryExpr{next_id(arg1.helper, item(enumerate(arg2.cols)).1), MapEntry{MapEntryExpr{visit(arg1, arg2.keys[?]), visit(arg1, arg2.values[?]), const(False)}}}', 'arg2.cols', ('arg2.keys', 'arg2.values')),
            ('field_initializer_list', 'IdedEntryExpr{next_id(arg1.helper, arg2.cols[?]), StructField{StructFieldExpr{get_text(escapeIdent(item(enumerate(arg2.fields)).1)), visit(arg1, arg2.values[?]), const(False)}}}', 'arg2.fields', ('arg2.cols', 'arg2.values'))):
        b = builder(fn)
        rep.analysed(b, calls=sum(1 for _ in b.calls()))
        pv = F.Prov(b)
        pushes = [terms(pv, t['args'][1]) for bi, t in b.calls() if (F.norm_callee(t) or '').endswith('Vec::push')]
        rep.check(pushes == [[want_push]], 'R8', '%s/appends-in-source-order' % fn, b.loc(), 'push(%s)' % want_push[:80],
                  '%s appends %s, expected one push of %s' % (fn, pushes, want_push))
        ro = sorted({F.norm_callee(t) for bi, t in b.calls() if REORDER.search(F.norm_callee(t) or '')})
        rep.check(not ro, 'R8', '%s/no-reordering' % fn, b.loc(), 'forward iteration, append only', '%s reorders or drops elements with %s' % (fn, ro))
        if counter_of:
            ix = index_terms(b, pv)
            want_ix = {'item(enumerate(iter(%s))).0' % counter_of, 'item(enumerate(%s)).0' % counter_of}
            okk = set(ix) == set(indexed) and all(v and v <= want_ix for v in ix.values())
            rep.check(okk, 'R8', '%s/same-index-for-key-and-value' % fn, b.loc(), '%s all indexed by the loop counter' % (sorted(ix),),
                      '%s indexes %s: every per-entry child must be taken at the loop counter of %s (key i with value i)' % (fn, {k: sorted(v) for k, v in ix.items()}, counter_of))
    for name, adt, want in (('visit_Select', 'SelectExpr', {'operand': 'visit(arg1, member(arg2))', 'field': 'get_text(arg2.id)', 'test': 'const(False)'}),
                            ('visit_CreateList', 'ListExpr', {'elements': 'default()|list_initializer_list(arg1, arg2.elems)'}),
                            ('visit_CreateStruct', 'MapExpr', {'entries': 'default()|map_initializer_list(arg1, arg2.entries)'})):
        b = visitor(fx, name)
        pv = F.Prov(b)
        ag = [st for _, _, st in b.stmts() if st['k'] == 'Assign' and st['rv']['k'] == 'Aggregate' and (st['rv'].get('adt') or '').endswith('ast::' + adt)]
        got = {k: '|'.join(terms(pv, o)) for k, o in zip(ag[0]['rv'].get('fields') or [], ag[0]['rv']['ops'])} if len(ag) == 1 else None
        rep.check(got == want, 'R8', '%s/%s-fields' % (name, adt), b.loc(), str(got), '%s builds %s as %s, expected %s' % (name, adt, got, want))
    b = visitor(fx, 'visit_CreateMessage')
    pv = F.Prov(b)
    ag = [st for _, _, st in b.stmts() if st['k'] == 'Assign' and st['rv']['k'] == 'Aggregate' and (st['rv'].get('adt') or '').endswith('ast::StructExpr')]
    ents = set(terms(pv, ag[0]['rv']['ops'][(ag[0]['rv'].get('fields') or ['type_name', 'entries']).index('entries')])) if len(ag) == 1 else set()
    rep.check(ents == {'field_initializer_list(arg1, arg2.entries)', 'new()'}, 'R8', 'visit_CreateMessage/entries', b.loc(), 'entries = field_initializer_list(entries)', 'message literal entries are %s' % sorted(ents))
    b = visitor(fx, 'visit_Ident')
    pv = F.Prov(b)
    ag = [st for _, _, st in b.stmts() if st['k'] == 'Assign' and st['rv']['k'] == 'Aggregate' and (st['rv'].get('adt') or '').endswith('ast::Expr') and st['rv'].get('variant') == 'Ident']
    rep.check(len(ag) == 1 and terms(pv, ag[0]['rv']['ops'][0]) == ['arg2.id.text'], 'R8', 'visit_Ident/name-is-token-text', b.loc(), 'Ident(id.text)', 'identifier node is not built from the token text')
    rep.floor('R8', 13)
    # ---------------- R9 built sub-expressions are opaque to the parser
    rep.rule('R9', 'the hand-written parser never looks inside a sub-expression it has built (so it cannot regroup, fuse or unroll it); the two macro argument checks are the only exceptions')
    ev = {v['name'] for v in fx.adt('cel_parser::ast::Expr')['variants']}
    ALLOWED = {'cel_parser::macros::has_macro_expander': {'Select'}, 'cel_parser::macros::extract_ident': {'Ident'}}
    nsc = 0
    for pb in fx.bodies.values():
        if pb.crate != 'cel_parser' or pb.is_derived() or pb.raw['kind'] == 'Promoted' or '/gen/' in pb.loc() or pb.loc().startswith('antlr/src/references.rs'):
            continue
        nsc += 1
        txt = json.dumps(pb.raw['blocks'])
        dc = set(re.findall(r'"k": "Downcast"[^{}]*"name": "(\w+)"', txt)) | set(re.findall(r'"name": "(\w+)"[^{}]*"k": "Downcast"', txt))
        fn = re.sub(r'::\{closure#\d+\}', '', F.norm_path(pb.path))
        fn = re.sub(r'^<([\w:]+) as [^>]*(<[^>]*>)?[^>]*>::', lambda mm: mm.group(1) + '::', fn)
        # `matches!(e.expr, Expr::Literal(_))` reads the discriminant without a downcast
        for _, _, st9 in pb.stmts():
            if st9['k'] == 'Assign' and st9['rv']['k'] == 'Discriminant':
                pl9 = st9['rv']['place']
                ty9 = pb.locals[pl9['l']]['ty'] if pl9['l'] < len(pb.locals) else ''
                if any(pr.get('k') == 'Field' and pr.get('name') == 'expr' for pr in pl9.get('p', [])) and 'IdedExpr' in ty9 or \
                   (re.search(r'cel_parser::ast::Expr$', ty9.replace('&', '').strip()) and not any(pr.get('k') == 'Field' for pr in pl9.get('p', []))):
                    dc = dc | {'(discriminant)'}
        bad = ((dc & ev) | (dc & {'(discriminant)'})) - ALLOWED.get(fn, set()) - ({'(discriminant)'} if fn in ALLOWED else set())
        for v in sorted(bad):
            rep.violation('R9', 'inspects-built-expression/%s/%s' % (fn.split('::', 1)[-1], v), pb.loc(),
                          '%s matches on Expr::%s of an expression that is already built: grouping written in the source (parentheses, receiver/argument boundaries) can be undone there' % (fn, v))
        if fn in ALLOWED:
            rep.ok('R9', 'argument-check/%s' % fn.rsplit('::', 1)[-1], pb.loc(), 'looks only at Expr::%s of its argument' % sorted(ALLOWED[fn]))
    rep.check(nsc >= 60, 'R9', 'parser-functions-scanned', 'antlr/src', '%d hand-written parser functions scanned' % nsc, 'only %d functions scanned (anchor lost)' % nsc)
    rep.floor('R5', 30)
    # ---------------- R6
    from . import c10
    mref = json.load(open(os.path.join(HERE, 'tables/reference/macros.json')))
    for mname, spec in mref['expansions'].items():
        try:
            b, oks = c10.expand(fx, spec['expander'], spec['arity'])
        except Unmodelled as e:
            rep.violation('R6', 'macro/%s' % mname, '-', 'expander not analysable: %s' % e)
            continue
        okk = len(oks) == 1
        leaves = ''
        if okk:
            v = oks[0][1][1]
            comp = v[1][3]['0'][3] if v[0] == 'ided' and v[1][0] == 'adt' and v[1][2] == 'Comprehension' else None
            okk = comp is not None
            if okk:
                rng = c10.render(comp['iter_range'])
                step = c10.render(comp['loop_step'])
                leaves = 'iter_range=%s loop_step=%s' % (rng, step)
                # the receiver is placed as is; every argument other than the variable appears as a bare $k leaf
                okk = rng == '$target' and all(('$%d' % k) in step for k in range(1, spec['arity'])) and '<?' not in step
        rep.check(okk, 'R6', 'macro/%s/operands-unchanged' % mname, b.loc(), leaves, 'macro %s does not place its receiver/arguments unchanged: %s' % (mname, leaves))


def short(p):
    return F.norm_path(p).rsplit('::', 1)[-1] if '{closure' not in p else '::'.join(F.norm_path(p).rsplit('::', 2)[-2:])


def local_used(b, l, def_block):
    """is local l read anywhere (other than being dropped)?"""
    def in_op(o):
        return o['k'] in ('Copy', 'Move') and o['place']['l'] == l
    def in_place(pl):
        return pl['l'] == l
    for bi in b.live_blocks():
        blk = b.blocks[bi]
        for s in blk['stmts']:
            if s['k'] != 'Assign':
                continue
            rv = s['rv']
            if 'op' in rv and isinstance(rv['op'], dict) and in_op(rv['op']):
                return True
            for k in ('l', 'r', 'a'):
                if k in rv and isinstance(rv[k], dict) and in_op(rv[k]):
                    return True
            if 'place' in rv and in_place(rv['place']):
                return True
            if any(in_op(o) for o in rv.get('ops', [])):
                return True
        t = blk['term']
        if t['k'] == 'Call' and any(in_op(a) for a in t['args']):
            return True
        if t['k'] == 'SwitchInt' and in_op(t['discr']):
            return True
    return False
