"""C07 — each operand is evaluated at most once, left to right.

CFG reachability between evaluation sites (calls that resolve an AST field) in
the evaluator, the extractors, the resolvers and the handler adapters."""
import re
from . import facts as F
from .evalmodel import EvalModel, RESOLVE_FNS, short_path, ast_path

LEVEL = 'other'
TRUSTED = ['rustc nightly (MIR construction, callee resolution)', 'std iterator contract: slice::Iter / hash_map::Keys yield each element once, Iterator::map+collect call the closure once per element in order']
EXPLANATION = ('R1: no evaluation of call.args[*] can reach the lazy `Function` dispatch (which hands the unevaluated arguments to extractors that evaluate them again); '
               'R2: two evaluation sites of one node are ordered by source index (a site of args[i] reaching a site of args[j] requires i<j; target before arguments; map key before value) and no '
               'site lies on a cycle that does not pass Iterator::next of the collection being walked; R3: the extractors consume arguments one by one (index = old arg_idx, '
               'arg_idx+1 stored on every path, Argument resolves args.get(index) only, AllArguments walks args once forward, This consumes an argument only when there is no receiver); '
               'R4: only the evaluator, resolvers, extractors and the public wrappers call a resolve function (no built-in resolves its own arguments); R5: each of the 20 handler adapters '
               'calls from_context for C1..Cn in that order, once each, and passes the results positionally. "Bounded work" is the stated consequence and is not decided separately.')
ASSUMPTIONS = ['host functions that combine `Arguments` with positional extractors, or that use the public FunctionContext fields directly, make their own choice and are outside the claim',
               'inlining bound 0: the dispatch and the evaluation sites are examined inside the evaluator function']

DROP7 = re.compile(r'::(flat_map|filter_map|flatten|filter|rev|skip|take|step_by|cycle|chain|zip)$')
ALLOWED_EVALUATORS = [
    (r'^cel_interpreter::objects::Value::resolve(_all)?(::\{closure#\d+\})*$', 'the evaluator'),
    (r'^<cel_interpreter::resolvers::\w+ as cel_interpreter::resolvers::Resolver>::resolve$', 'Argument / AllArguments resolvers'),
    (r'^<cel_parser::(ast::IdedExpr|Expression) as cel_interpreter::resolvers::Resolver>::resolve$', 'Resolver for Expression'),
    (r'^cel_interpreter::functions::FunctionContext::<.*>::resolve$', 'FunctionContext::resolve (public wrapper)'),
    (r'^cel_interpreter::context::Context::<.*>::resolve(_all)?$', 'Context::resolve (public wrapper)'),
    (r'^cel_interpreter::Program::execute$', 'Program::execute'),
    (r'^cel_interpreter::magic::arg_value_from_context$', 'positional extractor'),
    (r'^<cel_interpreter::magic::Arguments as cel_interpreter::magic::FromContext<.*>>::from_context$', 'Arguments extractor'),
]


def reach_after(b, block):
    """blocks reachable after the call terminating `block` returned"""
    return b.reachable_from(b.succ(block))


def next_blocks(b, pv, base_pred=None):
    """blocks that advance an iterator (Iterator::next)"""
    out = set()
    for bi, t in b.calls():
        if F.norm_callee(t) == 'std::iter::Iterator::next':
            out.add(bi)
    return out


def run(fx, rep):
    rep.rule('R1', 'no evaluation of call.args[*] reaches the lazy Function dispatch')
    rep.rule('R2', 'sites of one node ordered by source index, no re-evaluation cycle')
    rep.rule('R3', 'extractors consume arguments one by one, in order, each once')
    rep.rule('R4', 'only the evaluator/resolvers/extractors/wrappers call a resolve function')
    rep.rule('R5', 'handler adapters call from_context for C1..Cn in order and pass results positionally')
    m = EvalModel(fx)
    b = m.b
    rep.analysed(b, calls=sum(1 for _ in b.calls()))
    sites = m.sites()
    disp = m.dispatch_sites()
    if not disp:
        raise F.Lost('no lazy Function dispatch found in the evaluator')
    # ---------------- R1
    dblocks = {d['block'] for d in disp}
    for s in sites:
        for p in s['paths']:
            if p.startswith('Call.args['):
                r = reach_after(b, s['block'])
                hit = sorted(dblocks & r)
                rep.check(not hit, 'R1', '%s/%s' % (p, arm_name(m, s['block'])), s['loc'],
                          'cannot reach the function dispatch',
                          'value of %s is computed here and the lazy function dispatch (%s) is still reachable: the argument is evaluated again by the extractor (twice, and before the receiver)'
                          % (p, ', '.join(d['loc'] for d in disp if d['block'] in hit)))
    for d in disp:
        rep.ok('R1', 'dispatch/%s' % ('with-target' if any(s['paths'] == ['Call.target'] and d['block'] in reach_after(b, s['block']) for s in sites) else 'no-target'), d['loc'], 'lazy dispatch site')
    # ---------------- R2
    nxt = next_blocks(b, m.pv)

    def idx_of(p):
        mm = re.match(r'^Call\.args\[(\d+)\]$', p)
        return int(mm.group(1)) if mm else None

    for s in sites:
        p = s['paths'][0] if len(s['paths']) == 1 else '|'.join(s['paths'])
        if '?' in p or len(s['paths']) != 1:
            rep.violation('R2', 'unrecognised-site/%s' % arm_name(m, s['block']), s['loc'],
                          'cannot tell which sub-expression is evaluated here (%s): evaluation order cannot be established (fail closed)' % sorted(F.term_str(x) for x in s['terms']))
        after = reach_after(b, s['block'])
        # cycle: the same site again without advancing an iterator
        if s['block'] in after:
            cyc = b.reachable_from(b.succ(s['block']), blocked=nxt)
            rep.check(s['block'] not in cyc, 'R2', 'cycle/%s' % p, s['loc'], 're-entered only after Iterator::next (next element)',
                      '%s can be evaluated again without advancing to the next element' % p)
        else:
            rep.ok('R2', 'once/%s/%s' % (p, arm_name(m, s['block'])), s['loc'], 'not on a cycle')
        for o in sites:
            if o is s or o['block'] not in after:
                continue
            q = o['paths'][0] if len(o['paths']) == 1 else '|'.join(o['paths'])
            i, j = idx_of(p), idx_of(q)
            key = 'order/%s->%s/%s' % (p, q, arm_name(m, s['block']))
            if i is not None and j is not None:
                if i == j and o['block'] not in b.reachable_from(b.succ(s['block']), blocked=nxt | {s['block']}):
                    continue
                rep.check(i < j, 'R2', key, o['loc'], 'args[%d] before args[%d]' % (i, j),
                          '%s is evaluated at %s and then %s at %s: %s' % (p, s['loc'], q, o['loc'],
                                                                           'same operand evaluated twice' if i == j else 'right-to-left evaluation'))
            elif i is not None and q == 'Call.target':
                rep.violation('R2', key, o['loc'], 'an argument (%s) is evaluated before the receiver' % p)
            elif p.endswith('MapEntry.value') and q.endswith('MapEntry.key'):
                # only allowed through the loop back edge
                direct = b.reachable_from(b.succ(s['block']), blocked=nxt)
                rep.check(o['block'] not in direct, 'R2', key, o['loc'], 'next entry only', 'map value evaluated before its key')
            elif p.endswith('MapEntry.key') and q.endswith('MapEntry.value'):
                same_iter = o['block'] in b.reachable_from(b.succ(s['block']), blocked=nxt)
                rep.check(b.dominates(s['block'], o['block']) and same_iter, 'R2', key, o['loc'], 'key, then the value of the same entry, before the next entry',
                          'the value of a map entry is not evaluated right after its key (before advancing to the next entry): entries are evaluated out of source order (k1, k2, .., v1, v2, ..)'
                          if not same_iter else 'value may be evaluated without/before its key')
    # comprehension: cond before step inside one iteration
    cond = [s for s in sites if s['paths'] == ['Comprehension.loop_cond']]
    step = [s for s in sites if s['paths'] == ['Comprehension.loop_step']]
    for st in step:
        doms = [c for c in cond if b.dominates(c['block'], st['block']) and st['block'] in b.reachable_from(b.succ(c['block']), blocked=nxt)]
        rep.check(len(doms) == 1, 'R2', 'comprehension/cond-before-step/%d' % step.index(st), st['loc'],
                  'loop_cond evaluated before loop_step in the same iteration', 'loop_step not preceded by exactly one loop_cond in its iteration')
    # list literal: closure resolves its parameter once, driven by slice::Iter (forward)
    for cb in fx.bodies_with_closures(b.path)[1:]:
        cm = [t for _, t in cb.calls() if F.norm_callee(t) in RESOLVE_FNS]
        if cm:
            rep.analysed(cb)
            rep.check(len(cm) == 1 and not any(bi in cb.reachable_from(cb.succ(bi)) for bi, t in cb.calls() if F.norm_callee(t) in RESOLVE_FNS),
                      'R2', 'closure/%s' % cb.path.rsplit('::', 1)[-1], cb.loc(), 'closure evaluates its element once', 'closure evaluates more than once')
    # iterator kinds driving element evaluation in the evaluator
    for bi, t in b.calls():
        if F.norm_callee(t) == 'std::iter::Iterator::next' or F.norm_callee(t) == 'std::iter::Iterator::map':
            rc = F.resolved_callee(t) or ''
            ty = t['arg_tys'][0]
            fwd = ('std::slice::Iter<' in ty or 'std::collections::hash_map::Keys<' in ty) and 'Rev<' not in ty
            rep.check(fwd, 'R2', 'iterator/%s' % re.sub(r"<'.*", '', ty.replace('&mut ', ''))[:60], F.loc_of(t['span']),
                      'forward single-pass iterator', 'elements are walked by %s (not a forward slice/keys iterator)' % ty)
    # ---------------- R3 extractors
    check_extractors(fx, rep)
    # ---------------- R4
    n = 0
    for bb in fx.bodies.values():
        if bb.crate != 'cel_interpreter':
            continue
        for bi, t in bb.calls():
            if F.norm_callee(t) in RESOLVE_FNS:
                n += 1
                who = [w for rx, w in ALLOWED_EVALUATORS if re.match(rx, re.sub(r'(::\{closure#\d+\})+$', '', bb.path))]
                rep.check(bool(who), 'R4', 'caller/%s' % bb.path, F.loc_of(t['span']), who[0] if who else '',
                          '%s calls %s: a built-in/helper that evaluates expressions itself can evaluate an argument a second time' % (bb.path, F.norm_callee(t)))
    # ---------------- R5
    check_adapters(fx, rep)


def arm_name(m, block):
    best = '-'
    for op, a in m.arms().items():
        if block in m.b.reachable_from([a['entry']]) and block not in m.b.reachable_from([a['miss']]):
            best = op
    return best


def check_extractors(fx, rep):
    # arg_value_from_context / arg_expr_from_context
    for name in ('cel_interpreter::magic::arg_value_from_context', 'cel_interpreter::magic::arg_expr_from_context'):
        b = fx.body(name)
        rep.analysed(b)
        pv = F.Prov(b)
        loads, stores = [], []
        for bi, j, s in b.stmts():
            if s['k'] != 'Assign':
                continue
            pl = s['place']
            fld = [e.get('name') for e in pl['p'] if e['k'] == 'Field']
            if fld == ['arg_idx']:
                ts = pv.of_rvalue(s['rv'], pv.depth, ())
                stores.append((bi, j, ts, s))
            rv = s['rv']
            if rv['k'] == 'Use' and rv['op']['k'] in ('Copy', 'Move'):
                f2 = [e.get('name') for e in rv['op']['place']['p'] if e['k'] == 'Field']
                if f2 == ['arg_idx'] and not pl['p']:
                    loads.append((bi, j, pl['l']))
        short = name.rsplit('::', 1)[-1]
        okst = len(stores) == 1 and all(t[0] == 'binop' and t[1].startswith('Add') and t[2] == ('f', ('param', 1), 'arg_idx') and t[3] == ('const', 1)
                                         or (t[0] == 'f' and t[1][0] == 'binop' and t[1][1].startswith('Add') and t[1][3] == ('const', 1)) for t in stores[0][2]) if stores else False
        rep.check(okst, 'R3', '%s/increments-by-one' % short, b.loc(), 'arg_idx = arg_idx + 1, one store',
                  'arg_idx is not advanced by exactly one (%d stores)' % len(stores))
        if stores:
            sb = stores[0][0]
            rets = [bi for bi, t in b.terms('Return')]
            rep.check(all(b.dominates(sb, r) for r in rets), 'R3', '%s/advance-on-every-path' % short, b.loc(), 'the store dominates every return', 'some path returns without advancing arg_idx')
        # index used = value loaded before the store
        used = None
        for bi, t in b.calls():
            n = F.norm_callee(t)
            if n == 'cel_interpreter::functions::FunctionContext::resolve':
                used = ('call', bi, t)
            if n in ('std::ops::Index::index', 'core::slice::<impl [T]>::get'):
                used = ('index', bi, t)
        if used is None:
            rep.violation('R3', '%s/uses-index' % short, b.loc(), 'no use of the argument index found')
        else:
            kind, ubi, t = used
            idx_locals = set()
            def collect(o):
                if o['k'] in ('Copy', 'Move'):
                    l = o['place']['l']
                    idx_locals.add(l)
                    for (_, j, d) in b.defs().get(l, []):
                        if j != 'term' and d['rv']['k'] == 'Aggregate':
                            for oo in d['rv']['ops']:
                                collect(oo)
                        elif j != 'term' and d['rv']['k'] == 'Use':
                            collect(d['rv']['op'])
            for a in t['args'][1:]:
                collect(a)
            ld = [l for l in loads if l[2] in idx_locals]
            good = bool(ld) and bool(stores) and all((l[0] == stores[0][0] and l[1] < stores[0][1]) or (l[0] != stores[0][0] and b.dominates(l[0], stores[0][0])) for l in ld)
            rep.check(good, 'R3', '%s/index-is-old-arg_idx' % short, F.loc_of(t['span']), 'index = arg_idx read before the increment',
                      'the index used is not the arg_idx value read before the increment')
    # Argument::resolve
    b = fx.body('<cel_interpreter::resolvers::Argument as cel_interpreter::resolvers::Resolver>::resolve')
    rep.analysed(b)
    pv = F.Prov(b)
    ev = [(bi, t) for bi, t in b.calls() if F.norm_callee(t) in RESOLVE_FNS]
    okk = len(ev) == 1
    if okk:
        ts = pv.of_operand(ev[0][1]['args'][0])
        okk = all(t[0] == 'call' and t[1] == 'core::slice::<impl [T]>::get' and t[2][0] == ('f', ('param', 2), 'args') and t[2][1] == ('f', ('param', 1), '0') for t in ts)
    rep.check(okk, 'R3', 'Argument/resolves-args.get(index)-once', b.loc(), 'Value::resolve(args.get(self.0)) once', 'Argument::resolve does not evaluate exactly args.get(index)')
    # AllArguments::resolve
    b = fx.body('<cel_interpreter::resolvers::AllArguments as cel_interpreter::resolvers::Resolver>::resolve')
    rep.analysed(b)
    pv = F.Prov(b)
    ev = [(bi, t) for bi, t in b.calls() if F.norm_callee(t) in RESOLVE_FNS]
    nxt = next_blocks(b, pv)
    okk = len(ev) == 1
    if okk:
        ts = pv.of_operand(ev[0][1]['args'][0])
        okk = all(t == ('iter', ('f', ('param', 2), 'args')) for t in ts) and ev[0][0] not in b.reachable_from(b.succ(ev[0][0]), blocked=nxt)
        its = [t for bi, t in b.calls() if F.norm_callee(t) == 'std::iter::Iterator::next']
        okk = okk and len(its) == 1 and 'std::slice::Iter<' in its[0]['arg_tys'][0] and 'Rev' not in its[0]['arg_tys'][0]
    else:
        # the same pass written as ctx.args.iter().map(|a| resolve(a)).collect::<Result<_, _>>()
        cl = [fx.bodies[c] for c in fx.children.get(b.path, [])]
        maps = [t for bi, t in b.calls() if F.norm_callee(t) == 'std::iter::Iterator::map']
        if not ev and len(cl) == 1 and len(maps) == 1:
            cev = [(bi, t) for bi, t in cl[0].calls() if F.norm_callee(t) in RESOLVE_FNS]
            cpv = F.Prov(cl[0])
            src = pv.of_operand(maps[0]['args'][0])
            okk = len(cev) == 1 and all(x == ('param', 2) for x in cpv.of_operand(cev[0][1]['args'][0])) and 'std::slice::Iter<' in maps[0]['arg_tys'][0] and 'Rev' not in maps[0]['arg_tys'][0] and \
                all(F.term_contains(x, lambda y: y == ('f', ('param', 2), 'args')) for x in src) and not any(DROP7.search(F.norm_callee(t) or '') for bi, t in b.calls())
    rep.check(okk, 'R3', 'AllArguments/walks-args-once-forward', b.loc(), 'one forward pass over ctx.args', 'AllArguments::resolve is not a single forward pass over ctx.args')
    # This::from_context
    thisb = [x for x in fx.bodies.values() if x.raw.get('impl_trait') == 'cel_interpreter::magic::FromContext' and x.raw.get('impl_self', '').startswith('cel_interpreter::magic::This<') and x.raw['kind'] == 'AssocFn']
    if len(thisb) != 1:
        raise F.Lost('This<T>::from_context not found')
    b = thisb[0]
    rep.analysed(b)
    pv = F.Prov(b)
    sw = b.blocks[0]['term']
    okk = False
    if sw['k'] == 'SwitchInt':
        dts = pv.of_operand(sw['discr'])
        if all(t == ('discr', ('f', ('param', 1), 'this')) for t in dts):
            some_t = [a[1] for a in sw['arms'] if int(a[0]) == 1]
            some_t = some_t[0] if some_t else sw['otherwise']
            zero = [a[1] for a in sw['arms'] if int(a[0]) == 0]
            none_t = zero[0] if zero else sw['otherwise']
            some_r = b.reachable_from([some_t])
            none_r = b.reachable_from([none_t])
            consume = [bi for bi, t in b.calls() if F.norm_callee(t) in ('cel_interpreter::magic::arg_value_from_context', 'cel_interpreter::magic::arg_expr_from_context')]
            okk = len(consume) == 1 and consume[0] in none_r and consume[0] not in some_r
    rep.check(okk, 'R3', 'This/consumes-argument-only-without-receiver', b.loc(), 'argument consumed only on the this == None edge, once',
              'This::from_context consumes an argument although a receiver is present (or more than once)')


def check_adapters(fx, rep):
    ad = [b for b in fx.bodies.values() if re.match(r'^<F as cel_interpreter::magic::IntoFunction<\(.*\)>>::into_function::\{closure#0\}$', b.path)]
    for b in sorted(ad, key=lambda x: x.path):
        rep.analysed(b)
        mm = re.match(r'^<F as cel_interpreter::magic::IntoFunction<\((.*)\)>>', b.path)
        params = [x.strip() for x in mm.group(1).split(',') if x.strip()]
        with_ctx = bool(params) and params[0].endswith('WithFunctionContext')
        cs = [x for x in params if re.match(r'^C\d+$', x)]
        key = 'adapter/%s%d' % ('ctx+' if with_ctx else '', len(cs))
        calls = [(bi, t) for bi, t in b.calls() if F.norm_callee(t) == 'cel_interpreter::magic::FromContext::from_context']
        names = [t['callee']['args'][0] for bi, t in calls]
        okk = names == cs
        # each dominates the next
        for (b1, _), (b2, _) in zip(calls, calls[1:]):
            okk = okk and b.dominates(b1, b2)
        # none on a cycle
        okk = okk and all(bi not in b.reachable_from(b.succ(bi)) for bi, _ in calls)
        # positional passing
        pv = F.Prov(b)
        inv = [(bi, t) for bi, t in b.calls() if F.norm_callee(t) in ('std::ops::Fn::call',)]
        okk = okk and len(inv) == 1
        if okk:
            tup = pv.of_operand(inv[0][1]['args'][1])
            exp_n = len(cs) + (1 if with_ctx else 0)
            for t in tup:
                if t[0] != 'agg' or t[1] != 'Tuple' or len(t[2]) != exp_n:
                    okk = False
                    break
                elems = t[2][1:] if with_ctx else t[2]
                for e, (bi, _) in zip(elems, calls):
                    if not (e[0] == 'call' and e[1] == 'cel_interpreter::magic::FromContext::from_context' and e[3] == bi):
                        okk = False
        rep.check(okk, 'R5', key, b.loc(), 'from_context for %s in order, passed positionally' % (','.join(cs) or '()'),
                  'adapter does not extract %s in order and pass them positionally (calls: %s)' % (cs, names))
    # ---------------- R6 the parser never puts a copy of a sub-expression into the tree
    rep.rule('R6', 'no copy of an AST sub-expression enters the tree: a duplicated operand would be evaluated once per copy')
    AST = re.compile(r'cel_parser::ast::(IdedExpr|Expr|CallExpr|SelectExpr|ListExpr|MapExpr|StructExpr|ComprehensionExpr|EntryExpr|MapEntryExpr|StructFieldExpr)\b')
    nsc = 0
    for pb in fx.bodies.values():
        if pb.crate != 'cel_parser' or pb.is_derived() or pb.raw['kind'] == 'Promoted' or '/gen/' in pb.loc():
            continue
        ppv = None
        for bi, t in pb.calls():
            nsc += 1
            n = F.norm_callee(t) or ''
            if not (n.endswith('Clone::clone') or n.endswith('ToOwned::to_owned') or n.endswith('slice::<impl [T]>::to_vec') or n.endswith('Clone::clone_from')):
                continue
            if not AST.search(t['arg_tys'][0]):
                continue
            ppv = ppv or F.Prov(pb, transparent={})
            def direct(x, bi=bi):
                # the copy itself (possibly projected or re-wrapped in an aggregate), not something computed from it by another call
                while x[0] in ('f', 'dc', 'ix', 'cast', 'stored'):
                    x = x[1] if x[0] != 'cast' else x[2]
                if x[0] == 'agg':
                    return any(direct(e) for e in x[2])
                return x[0] == 'call' and x[3] == bi
            users = sorted({F.norm_callee(t2) or '?' for b2, t2 in pb.calls() if b2 != bi and any(direct(x) for a_ in t2['args'] for x in ppv.of_operand(a_))})
            stored = any(st['k'] == 'Assign' and st['rv']['k'] == 'Aggregate' and any(direct(x) for o in st['rv']['ops'] for x in ppv.of_operand(o)) for _, _, st in pb.stmts())
            okk = users == ['cel_parser::macros::extract_ident'] and not stored
            fn = re.sub(r'::\{closure#\d+\}', '/closure', F.norm_path(pb.path).split('::', 1)[-1])
            rep.check(okk, 'R6', 'ast-copy/%s' % fn, F.loc_of(t['span']), 'the copy is only read for its identifier name (extract_ident)',
                      '%s copies a sub-expression (%s) and the copy flows to %s%s: if it ends up in the tree the operand is evaluated once per copy' % (fn, t['arg_tys'][0], users, ' and into an aggregate' if stored else ''))
    rep.check(nsc >= 800, 'R6', 'parser-call-sites-scanned', 'antlr/src', '%d call sites of the hand-written parser scanned' % nsc, 'only %d call sites scanned (anchor lost)' % nsc)
    # ---------------- R7 one lazy dispatch per evaluation of a call node
    rep.rule('R7', 'a call node is handed to its function at most once: no lazy dispatch is reachable from another one (a retry re-evaluates receiver and arguments)')
    m = EvalModel(fx)
    b = m.b
    ds = m.dispatch_sites()
    rep.check(len(ds) >= 1, 'R7', 'dispatch-sites-found', b.loc(), '%d lazy dispatch site(s)' % len(ds), 'no lazy Function dispatch found in the evaluator (anchor lost)')
    for d1 in ds:
        after = b.reachable_from(b.succ(d1['block']))
        again = [d2 for d2 in ds if d2['block'] in after]
        rep.check(not again, 'R7', 'single-dispatch/%d' % ds.index(d1), d1['loc'], 'no second dispatch on any path after this one',
                  'after the function dispatch at %s another dispatch at %s is reachable: the call is retried and its receiver/arguments are evaluated once per attempt' % (d1['loc'], [x['loc'] for x in again]))
    # the evaluator's only AST copies are the argument vectors handed (unevaluated) to FunctionContext::new
    ASTI = re.compile(r'cel_parser::(ast::)?(IdedExpr|Expression|Expr|CallExpr|SelectExpr|ListExpr|MapExpr|StructExpr|ComprehensionExpr|EntryExpr|IdedEntryExpr)\b')
    ipv = F.Prov(b, transparent={})
    for bi, t in b.calls():
        n = F.norm_callee(t) or ''
        if not (n.endswith('Clone::clone') or n.endswith('ToOwned::to_owned') or n.endswith('::to_vec') or n.endswith('Iterator::cloned')):
            continue
        if not ASTI.search(t['arg_tys'][0]):
            continue
        src = sorted({short_path(ast_path(x)) for x in m.pv.of_operand(t['args'][0])})
        users = sorted({F.norm_callee(t2) or '?' for b2, t2 in b.calls() if b2 != bi and any(x[0] == 'call' and x[3] == bi for a_ in t2['args'] for x in ipv.of_operand(a_))})
        okk = src == ['Call.args'] and users == ['cel_interpreter::functions::FunctionContext::new']
        rep.check(okk, 'R7', 'ast-copy/%s' % '+'.join(src), F.loc_of(t['span']), 'call.args cloned into the FunctionContext of the one dispatch',
                  'the evaluator copies %s (%s) for %s: a copied sub-expression is evaluated again by whoever receives the copy' % (src, t['arg_tys'][0], users))
    # producer rules: the parser puts every operand into the tree exactly once, in source order
    rep.rule('P1', 'producer rule: literals and calls are built with their children in source order and built sub-expressions are never regrouped or copied by the parser (C04 R3/R8/R9)')
    from . import c04
    from .report import Forwarder
    fw = Forwarder(rep, 'P1', r'^(R8/|R9/|R3/visit_(MemberCall|GlobalCall)/|R3/(global|receiver)_call_or_macro/)', 'C04')
    c04.run(fx, fw)
    rep.check(fw.n >= 20, 'P1', 'parser-rules-evaluated', 'antlr/src/parser.rs', '%d parser-side instances' % fw.n, 'only %d parser-side instances evaluated (anchor lost)' % fw.n)
    rep.floor('R5', 20, '(arity 0-9 with and without FunctionContext)')
    rep.floor('R1', 19, '(at least one args[0] site per operator arm)')
    rep.floor('R2', 25)
    rep.floor('R3', 9)
    rep.floor('R4', 10)
