"""C18 — exporting a CEL value to JSON is total and faithful (arm table, error propagation, panic ledger)."""
import re
from . import facts as F
from . import panics as P
from .c08 import variant_names

LEVEL = 'other'
TRUSTED = ['rustc nightly (MIR, callee resolution)', 'serde_json: From<i64|u64|f64|bool|String> for Value (non-finite doubles become null), Number::from, Map::insert', 'base64 STANDARD engine', 'chrono to_rfc3339 / num_nanoseconds']
EXPLANATION = ('R1: the match in Value::json has, per variant, exactly the arm of the property\'s table: List -> Array of the elements\' json(), Map -> Object keyed by the key\'s Display with json() of the value, Int/UInt/Float/Bool -> serde_json From of the '
               'payload (no cast), String -> the string, Bytes -> BASE64_STANDARD.encode, Null -> Null, Timestamp -> to_rfc3339, Duration -> num_nanoseconds with None -> DurationOverflow, everything else (Function and any future variant) -> Err(Value); '
               'R2: every nested json() result is propagated with `?` or returned (no unwrap*/ok/unwrap_or*/filter_map); R3: json.rs contains no panic edge. The import-back round trip is value-level and not decided.')
ASSUMPTIONS = ['analysed only when the json feature is enabled', 'serde_json number handling (non-finite doubles -> null) is the library\'s']

VALUE = 'cel_interpreter::objects::Value'
JSON = 'cel_interpreter::json::<impl cel_interpreter::objects::Value>::json'
TRN = {k: v for k, v in F.TRANSPARENT.items() if k not in ('std::convert::Into::into', 'std::convert::From::from', 'std::string::ToString::to_string')}


def conv_src(b, term):
    """source type of an Into/From conversion term"""
    t = b.blocks[term[3]]['term']
    ga = (t.get('callee') or {}).get('args', [])
    return ga[0] if term[1].endswith('into') else (ga[1] if len(ga) > 1 else '?')


def payload(t, variant):
    return t[0] == 'f' and t[1][0] == 'dc' and t[1][2] == variant and t[1][1] == ('param', 1)


def plain_template():
    return ["('const', ('text', 'b\"\\\\xc0\\\\x00\"'))"]


def run(fx, rep):
    # the round-trip clause imports the exported document with to_value(serde_json::Value): the serializer's shape table for the
    # JSON-native kinds (null, bool, numbers, string, sequence, map with string keys) and the store-every-entry effects are C17 R1
    from .report import producer_rules
    producer_rules(fx, rep, 'producer rule: importing a JSON document stores every element and entry it is given and maps the JSON-native kinds to their CEL kinds and member names to string keys (C17 R1/R2)',
                   [('c17', 'C17', r'^(R1/(Serializer/serialize_(bool|i64|u64|f64|str|unit|none|some|seq|map)|SerializeVec/|SerializeMap/)|R2/KeySerializer/serialize_(str|bool|i64|u64))')], 10)
    if 'json' not in fx.features('cel_interpreter'):
        rep.note('feature json disabled: Value::json does not exist in this configuration')
        return
    rep.rule('R1', 'arm table of Value::json')
    rep.rule('R2', 'nested failures propagate')
    rep.rule('R3', 'no panic edge in json.rs')
    jb = [b for b in fx.bodies.values() if F.norm_path(b.path) == JSON]
    if len(jb) != 1:
        raise F.Lost('Value::json not found')
    b = jb[0]
    rep.analysed(b, calls=sum(1 for _ in b.calls()))
    pv = F.Prov(b, transparent=TRN)
    vn = variant_names(fx, VALUE)
    sw = b.blocks[0]['term']
    if sw['k'] != 'SwitchInt' or not all(x == ('discr', ('param', 1)) for x in pv.of_operand(sw['discr'])):
        raise F.Lost('Value::json does not start with a match on self')
    arms = {vn[int(v)]: tg for v, tg in sw['arms']}
    other = sw['otherwise']
    # the result local of the match
    oks = [s for _, _, s in b.stmts() if s['k'] == 'Assign' and s['place']['l'] == 0 and s['rv']['k'] == 'Aggregate' and s['rv'].get('variant') == 'Ok']
    if len(oks) != 1 or F.op_local(oks[0]['rv']['ops'][0]) is None:
        raise F.Lost('Value::json: unrecognised result construction')
    res = F.op_local(oks[0]['rv']['ops'][0])
    arm_of_block = {}
    for name, tg in arms.items():
        others = set().union(*[b.reachable_from([t2]) for n2, t2 in arms.items() if n2 != name] + [b.reachable_from([other])])
        for blk in b.reachable_from([tg]) - others:
            arm_of_block[blk] = name
    got = {}
    for bi, ts in pv.per_def(res):
        got.setdefault(arm_of_block.get(bi, '?'), set()).update(ts)

    def conv(terms, src_ty, inner_pred, what):
        """all terms are Into/From conversions from src_ty whose source satisfies inner_pred"""
        return bool(terms) and all(t[0] == 'call' and t[1] in ('std::convert::Into::into', 'std::convert::From::from') and conv_src(b, t) == src_ty and inner_pred(t[2][0]) for t in terms)

    table = {
        'Int': lambda ts: conv(ts, 'i64', lambda x: payload(x, 'Int'), ''),
        'UInt': lambda ts: conv(ts, 'u64', lambda x: payload(x, 'UInt'), ''),
        'Float': lambda ts: conv(ts, 'f64', lambda x: payload(x, 'Float'), ''),
        'Bool': lambda ts: conv(ts, 'bool', lambda x: payload(x, 'Bool'), ''),
        'String': lambda ts: conv(ts, 'std::string::String', lambda x: x[0] == 'call' and x[1] == 'std::string::ToString::to_string' and payload(x[2][0], 'String'), ''),
        'Bytes': lambda ts: conv(ts, 'std::string::String', lambda x: F.term_contains(x, lambda y: y[0] == 'call' and y[1] == 'base64::Engine::encode' and payload(y[2][1], 'Bytes')
                                                                          and F.term_str(y[2][0]).find('STANDARD') >= 0), ''),
        'Null': lambda ts: bool(ts) and all(t[0] == 'agg' and t[1] == 'serde_json::Value::Null' for t in ts),
        'Timestamp': lambda ts: conv(ts, 'std::string::String', lambda x: x[0] == 'call' and x[1] == 'chrono::DateTime::to_rfc3339' and payload(x[2][0], 'Timestamp'), ''),
        'Duration': lambda ts: bool(ts) and all(t[0] == 'agg' and t[1] == 'serde_json::Value::Number' and F.term_contains(t, lambda y: y[0] == 'call' and y[1] == 'chrono::TimeDelta::num_nanoseconds' and payload(y[2][0], 'Duration')) for t in ts),
        'List': lambda ts: bool(ts) and all(t[0] == 'agg' and t[1] == 'serde_json::Value::Array' and F.term_contains(t, lambda y: y[0] == 'call' and y[1] == 'std::iter::Iterator::map' and payload(y[2][0], 'List')) for t in ts),
        'Map': lambda ts: bool(ts) and all(t[0] == 'agg' and t[1] == 'serde_json::Value::Object' for t in ts),
    }
    feats = fx.features('cel_interpreter')
    for name, pred in table.items():
        if name in ('Timestamp', 'Duration') and 'chrono' not in feats:
            continue
        ts = got.get(name, set())
        rep.check(name in arms and pred(ts), 'R1', 'arm/%s' % name, b.loc(), ' | '.join(sorted(F.term_str(x) for x in ts))[:150],
                  'Value::%s is exported as `%s`, which is not the documented mapping' % (name, ' | '.join(sorted(F.term_str(x) for x in ts))[:200]))
    extra = set(arms) - set(table)
    rep.check(not extra, 'R1', 'no-undocumented-arm', b.loc(), 'arms: %s' % sorted(arms), 'undocumented export arm(s) for %s' % sorted(extra))
    # catch-all -> Err(Value(self))
    errs = [s for blk in b.reachable_from([other]) - set().union(*[b.reachable_from([t2]) for t2 in arms.values()]) for s in b.blocks[blk]['stmts']
            if s['k'] == 'Assign' and s['rv']['k'] == 'Aggregate' and s['rv'].get('adt', '').endswith('ConvertToJsonError')]
    rep.check(len(errs) == 1 and errs[0]['rv']['variant'] == 'Value', 'R1', 'catch-all/Err(Value)', b.loc(), 'Function and future variants -> Err(ConvertToJsonError::Value)', 'the catch-all arm does not return ConvertToJsonError::Value')
    # duration overflow
    if 'chrono' in feats:
        ov = [s for _, _, s in b.stmts() if s['k'] == 'Assign' and s['rv']['k'] == 'Aggregate' and s['rv'].get('variant') == 'DurationOverflow']
        nn = [(bi, t) for bi, t in b.calls() if F.norm_callee(t) == 'chrono::TimeDelta::num_nanoseconds']
        okk = len(ov) == 1 and len(nn) == 1
        if okk:
            users = [F.norm_callee(t2) for b2, t2 in b.calls() if any(x[0] == 'call' and x[3] == nn[0][0] for a in t2['args'] for x in F.Prov(b, transparent={}).of_operand(a))]
            okk = users == ['std::option::Option::ok_or'] or users == ['std::option::Option::ok_or_else']
        rep.check(okk, 'R1', 'Duration/None->DurationOverflow', b.loc(), 'num_nanoseconds().ok_or(DurationOverflow)?', 'a duration beyond 64-bit nanoseconds is not reported as DurationOverflow')
    # Map arm: insert(obj, to_string(key), json(value)?)
    ins = [(bi, t) for bi, t in b.calls() if F.norm_callee(t) == 'serde_json::Map::insert']
    okk = len(ins) == 1
    if okk:
        k = pv.of_operand(ins[0][1]['args'][1])
        v = pv.of_operand(ins[0][1]['args'][2])
        okk = all(x[0] == 'call' and x[1] == 'std::string::ToString::to_string' and F.term_contains(x, lambda y: y[0] == 'iter') for x in k) and \
            all(x[0] == 'call' and F.norm_path(x[1]) == JSON for x in v)
    rep.check(okk, 'R1', 'arm/Map/insert(key.to_string(), value.json()?)', b.loc(), 'object keyed by the key\'s text', 'map entries are not exported as key.to_string() -> value.json()')
    # ---------------- R2
    n = 0
    for jb_ in fx.bodies_with_closures(b.path):
        tpv = F.Prov(jb_, transparent={})
        for bi, t in jb_.calls():
            if F.norm_path((t.get('callee') or {}).get('res') or '') != JSON:
                continue
            n += 1
            users = [F.norm_callee(t2) for b2, t2 in jb_.calls() if any(x[0] == 'call' and x[3] == bi for a in t2['args'] for x in tpv.of_operand(a))]
            returned = t['dest']['l'] == 0
            okk = (users == ['std::ops::Try::branch']) or (returned and not users)
            rep.check(okk, 'R2', 'nested-json/%s/%d' % ('closure' if jb_ is not b else 'body', n), F.loc_of(t['span']), 'propagated by `?` / returned to collect::<Result<..>>',
                      'result of a nested json() is consumed by %s: a nested failure is swallowed' % users)
    coll = [t for bi, t in b.calls() if F.norm_callee(t) == 'std::iter::Iterator::collect']
    rep.check(len(coll) == 1 and coll[0]['callee']['args'][-1].startswith('std::result::Result<'), 'R2', 'list/collect-into-Result', b.loc(), 'collect::<Result<Vec<_>, _>>()',
              'list elements are not collected into a Result (element failures are dropped)')
    bad = [F.norm_callee(t) for jb_ in fx.bodies_with_closures(b.path) for bi, t in jb_.calls() if re.search(r'::(unwrap|unwrap_or|unwrap_or_default|unwrap_or_else|ok|filter_map|flatten|expect)$', F.norm_callee(t) or '')]
    rep.check(not bad, 'R2', 'no-swallowing-combinators', b.loc(), 'none', 'json() uses %s' % bad)
    # ---------------- R3
    ledger = P.load_ledger()
    bodies = [x for x in sorted(fx.bodies.values(), key=lambda y: (y.loc(), y.path)) if x.crate == 'cel_interpreter' and x.raw['kind'] != 'Promoted' and not x.is_derived() and x.loc().startswith('interpreter/src/json.rs')]
    edges = P.audit(fx, rep, 'R3', bodies, ledger, 'json')
    rep.ok('R3', 'scanned', 'interpreter/src/json.rs', '%d bodies scanned, %d panic edges' % (len(bodies), len(edges)))
    # ---------------- R4 the text of a key
    rep.rule('R4', 'object members are keyed by the plain Display text of the key payload (Key::fmt writes "{}" of the payload, nothing else)')
    kb = fx.bodies.get('<cel_interpreter::objects::Key as std::fmt::Display>::fmt')
    if kb is None:
        raise F.Lost('Display for Key not found')
    rep.analysed(kb)
    kpv = F.Prov(kb, transparent={})
    arms = {}
    for bi, t in kb.calls():
        if F.norm_callee(t) == 'std::fmt::Arguments::new':
            tmpl = sorted(str(x) for x in kpv.of_operand(t['args'][0]))
            parts = []
            for x in kpv.of_operand(t['args'][1]):
                if x[0] == 'agg':
                    for e in x[2]:
                        if e[0] == 'call' and e[1] == 'core::fmt::rt::Argument::new_display' and e[2][0][0] == 'f' and e[2][0][1][0] == 'dc' and e[2][0][1][1] == ('param', 1):
                            parts.append(e[2][0][1][2])
                        else:
                            parts.append('? ' + F.term_str(e)[:40])
            arms[tuple(parts)] = tmpl
    for bi, t in kb.calls():
        # the same thing spelled Display::fmt(payload, f)
        if F.norm_callee(t) == 'std::fmt::Display::fmt' and len(t['args']) == 2:
            for x in kpv.of_operand(t['args'][0]):
                if x[0] == 'f' and x[1][0] == 'dc' and x[1][1] == ('param', 1) and all(y == ('param', 2) for y in kpv.of_operand(t['args'][1])):
                    arms[(x[1][2],)] = plain_template()
    other = sorted({F.norm_callee(t) or '?' for bi, t in kb.calls() if (F.norm_callee(t) or '') not in ('std::fmt::Arguments::new', 'core::fmt::rt::Argument::new_display', 'std::fmt::Formatter::write_fmt', 'std::fmt::Display::fmt')})
    plain = plain_template()
    okk = set(arms) == {('Int',), ('Uint',), ('Bool',), ('String',)} and all(v == plain for v in arms.values()) and not other
    rep.check(okk, 'R4', 'key-text/plain-display', kb.loc(), 'each variant: write!(f, "{}", payload)',
              'Display for Key renders %s%s: JSON member names are no longer the plain text of the key' % ({k: v for k, v in arms.items()}, (' and calls %s' % other) if other else ''))
    rep.floor('R1', 12 if 'chrono' not in feats else 14)
    rep.floor('R2', 2)
