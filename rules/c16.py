"""C16 — timestamps keep the instant and calendar fields they were given (claimed clauses R1-R4)."""
import re
from . import facts as F
from .zone import zone_conversions
from .c08 import find_impl_body
from .c15 import CHRONO_OP, instant_difference, opkey

LEVEL = 'other'
TRUSTED = ['rustc nightly (MIR, callee resolution)', "chrono: Datelike/Timelike accessors return the field of the local time at the value's own offset; DateTime eq/cmp compare instants; checked_*_signed return None on overflow; RFC 3339 parsing/printing"]
EXPLANATION = ('R1: each registered accessor name maps to a function whose result is exactly one chrono accessor applied to the receiver as is (no with_timezone/naive_utc/to_utc), with the documented origin: '
               'getFullYear: year, getMonth: month0, getDayOfMonth: day0, getDate: day, getDayOfWeek: weekday().num_days_from_sunday(), getHours/Minutes/Seconds: hour/minute/second, getMilliseconds: timestamp_subsec_millis, '
               'getDayOfYear: ordinal0 (0-based day of the year); R2: the Timestamp arms of eq/partial_cmp call DateTime\'s own eq/cmp (instant based) on the two payloads; '
               'R3: Timestamp +/- Duration use checked_add_signed/checked_sub_signed with None -> error, Timestamp - Timestamp is the (never overflowing) instant difference; '
               'R4: timestamp() is parse_from_rfc3339 of the whole argument, string(timestamp) is to_rfc3339. Gregorian arithmetic and RFC 3339 round trips are chrono\'s and not decided.')
ASSUMPTIONS = ['calendar correctness, RFC 3339 parsing/printing and their round trip are delegated to chrono']

VALUE = 'cel_interpreter::objects::Value'
CTX = 'cel_interpreter::context::Context'
TABLE = {
    'getFullYear': ['chrono::Datelike::year'],
    'getMonth': ['chrono::Datelike::month0'],
    'getDayOfMonth': ['chrono::Datelike::day0'],
    'getDate': ['chrono::Datelike::day'],
    'getDayOfWeek': ['chrono::Datelike::weekday', 'chrono::Weekday::num_days_from_sunday'],
    'getHours': ['chrono::Timelike::hour'],
    'getMinutes': ['chrono::Timelike::minute'],
    'getSeconds': ['chrono::Timelike::second'],
    'getMilliseconds': ['chrono::DateTime::timestamp_subsec_millis'],
    'getDayOfYear': ['chrono::Datelike::ordinal0'],
}
FORBIDDEN = re.compile(r'(with_timezone|naive_utc|to_utc|naive_local|fixed_offset|timestamp$|timestamp_millis$|timestamp_nanos)')


def receiver_term(x):
    """the This<..> payload of parameter 1 (possibly through refs)"""
    return x == ('f', ('param', 1), '0') or x == ('param', 1)


def fixtures(ffx, rep):
    from .report import Collector, expect_fixture_hits
    col = Collector()
    for b in ffx.bodies.values():
        if b.path.startswith('verif_fixtures::c16::'):
            zone_conversions(b, col, 'R5')
    expect_fixture_hits(rep, col, {'R5': ['zone-conversion/verif_fixtures::c16::parse_as_utc/parse<Utc>', 'zone-conversion/verif_fixtures::c16::parse_as_utc/fixed_offset', 'zone-conversion/verif_fixtures::c16::hours_in_utc/to_utc',
                                          'zone-conversion/verif_fixtures::c16::rezoned/with_timezone', 'zone-conversion/verif_fixtures::c16::local_fields/naive_local']})
    silent = [k for k in col.bad.get('R5', []) if 'good' in k]
    rep.check(not silent, 'fixture', 'R5/silent-on-offset-keeping-parse', 'fixtures/', 'parse::<DateTime<FixedOffset>> accepted', 'rule fires on an offset-keeping parse: %s' % silent)


def run(fx, rep):
    if 'chrono' not in fx.features('cel_interpreter'):
        rep.note('feature chrono disabled: timestamps do not exist in this configuration')
        return
    rep.rule('R1', 'accessor table: name -> chrono field accessor on the receiver as is')
    rep.rule('R2', 'equality and ordering of timestamps compare instants')
    rep.rule('R3', 'timestamp arithmetic is checked')
    rep.rule('R4', 'timestamp() / string(timestamp) are RFC 3339 parse / print of the whole value')
    rep.rule('R5', 'no zone conversion anywhere in the interpreter outside ser.rs (C17 covers ser.rs): the offset a timestamp was given is kept')
    nz = 0
    for zb in fx.bodies.values():
        if zb.crate == 'cel_interpreter' and zb.raw['kind'] != 'Promoted' and not zb.is_derived() and not zb.loc().startswith('interpreter/src/ser.rs'):
            nz += zone_conversions(zb, rep, 'R5')
    rep.check(nz >= 1500, 'R5', 'call-sites-scanned', 'interpreter/src', '%d call sites scanned, none converts a zone' % nz, 'only %d call sites scanned (anchor lost)' % nz)
    dflt = [x for x in fx.bodies.values() if x.raw.get('impl_trait') == 'std::default::Default' and x.raw.get('impl_self', '').startswith(CTX) and x.raw['kind'] == 'AssocFn']
    if len(dflt) != 1:
        raise F.Lost('Context::default not found')
    d = dflt[0]
    dpv = F.Prov(d)
    reg = {}
    for bi, t in d.calls():
        if F.norm_callee(t) == CTX + '::add_function':
            nts = dpv.of_operand(t['args'][1])
            fts = dpv.of_operand(t['args'][2])
            if len(nts) == 1 and len(fts) == 1:
                n, f = next(iter(nts)), next(iter(fts))
                if n[0] == 'const' and f[0] == 'const' and isinstance(f[1], tuple) and f[1][0] == 'fn':
                    reg[n[1]] = f[1][1]
    for name, chain in TABLE.items():
        if name not in reg:
            rep.violation('R1', 'accessor/%s' % name, d.loc(), 'accessor %s is not registered in Context::default' % name)
            continue
        b = [x for x in fx.bodies.values() if F.norm_path(x.path) == reg[name]]
        if len(b) != 1:
            raise F.Lost('accessor function %s not found' % reg[name])
        b = b[0]
        rep.analysed(b, calls=sum(1 for _ in b.calls()))
        pv = F.Prov(b, transparent={k: v for k, v in F.TRANSPARENT.items() if k not in ('std::convert::Into::into', 'std::convert::From::from')})
        chrono_calls = [(bi, t) for bi, t in b.calls() if (F.norm_callee(t) or '').startswith('chrono::')]
        names = [F.norm_callee(t) for bi, t in chrono_calls]
        okk = names == chain
        why = 'calls %s, expected %s' % (names, chain)
        if okk:
            # first call on the receiver as is; each next call on the previous result
            ts = pv.of_operand(chrono_calls[0][1]['args'][0])
            okk = all(receiver_term(x) for x in ts)
            why = 'accessor is applied to %s, not to the receiver as is' % [F.term_str(x) for x in ts]
            for (b1, t1), (b2, t2) in zip(chrono_calls, chrono_calls[1:]):
                ts = pv.of_operand(t2['args'][0])
                okk = okk and all(x[0] == 'call' and x[3] == b1 for x in ts)
        if okk:
            # the returned value is that result (through a widening cast and Into<Value>)
            rets = [x for _, ts in pv.per_def(0) for x in ts]
            last = chrono_calls[-1][0]
            def from_last(x):
                return F.term_contains(x, lambda y: y[0] == 'call' and y[3] == last and y[1] == chain[-1])
            okk = bool(rets) and all(from_last(x) for x in rets)
            why = 'returned value does not derive from the accessor result: %s' % [F.term_str(x)[:80] for x in rets]
            arith = [s for _, _, s in b.stmts() if s['k'] == 'Assign' and s['rv']['k'] == 'BinaryOp' and s['rv']['op'].rstrip('WithOverflow') in ('Add', 'Sub', 'Mul', 'Div', 'Rem')]
            if arith:
                okk = False
                why = 'accessor result is adjusted arithmetically (origin changed)'
        rep.check(okk, 'R1', 'accessor/%s' % name, b.loc(), '%s -> %s on the receiver' % (name, '.'.join(c.rsplit('::', 1)[-1] for c in chain)), 'accessor %s: %s' % (name, why))
        bad = [n for n in names if FORBIDDEN.search(n.rsplit('::', 1)[-1])]
        rep.check(not bad, 'R1', 'accessor/%s/no-zone-conversion' % name, b.loc(), 'no conversion to another offset', 'accessor %s converts the timestamp first (%s): the field is no longer the one at its own offset' % (name, bad))
    # ---------------- R2
    for tr, want in (('std::cmp::PartialEq', r'^<chrono::DateTime as std::cmp::PartialEq>::eq$'), ('std::cmp::PartialOrd', r'^<chrono::DateTime as std::cmp::Ord>::cmp$')):
        b = find_impl_body(fx, tr, VALUE)
        rep.analysed(b)
        pv = F.Prov(b)
        meth = 'std::cmp::PartialEq::eq' if 'Eq' in tr else 'std::cmp::Ord::cmp'
        cs = [(bi, t) for bi, t in b.calls() if re.match(want, F.resolved_callee(t) or '') or
              (F.norm_callee(t) == meth and all(a.lstrip('&').startswith('chrono::DateTime<') for a in t['arg_tys']))]
        okk = len(cs) == 1
        if okk:
            t = cs[0][1]
            def payload(x, p):
                return x[0] == 'f' and x[1][0] == 'dc' and x[1][2] == 'Timestamp' and x[1][1] == ('param', p)
            okk = all(payload(x, 1) for x in pv.of_operand(t['args'][0])) and all(payload(x, 2) for x in pv.of_operand(t['args'][1]))
        rep.check(okk, 'R2', '%s/DateTime-own-comparison' % tr.rsplit('::', 1)[-1], b.loc(), 'DateTime %s on (self, other) payloads' % ('eq' if 'Eq' in tr else 'cmp'),
                  'the Timestamp arm of %s does not compare the two instants with chrono\'s own %s' % (tr, 'eq' if 'Eq' in tr else 'cmp'))
        conv = [F.norm_callee(t) for bi, t in b.calls() if (F.norm_callee(t) or '').startswith('chrono::') and FORBIDDEN.search((F.norm_callee(t) or '').rsplit('::', 1)[-1])]
        rep.check(not conv, 'R2', '%s/no-field-comparison' % tr.rsplit('::', 1)[-1], b.loc(), 'no naive/local field comparison', 'timestamps are converted before comparing (%s)' % conv)
    # ---------------- R3
    want = {'std::ops::Add': ['checked_add_signed', 'checked_add_signed'], 'std::ops::Sub': ['checked_sub_signed']}
    for tr, meths in want.items():
        b = find_impl_body(fx, tr, VALUE)
        got = sorted(F.norm_callee(t).rsplit('::', 1)[-1] for bi, t in b.calls() if re.match(r'^chrono::DateTime::checked_(add|sub)_signed$', F.norm_callee(t) or ''))
        rep.check(got == sorted(meths), 'R3', '%s/checked-timestamp-arithmetic' % tr.rsplit('::', 1)[-1], b.loc(), 'uses %s' % got, 'timestamp %s uses %s, expected %s' % (tr, got, meths))
        for bi, t in b.calls():
            rc = F.resolved_callee(t) or ''
            if CHRONO_OP.match(rc):
                if instant_difference(t):
                    rep.ok('R3', 'Sub/instant-difference', F.loc_of(t['span']), 'timestamp - timestamp = instant difference (cannot overflow a TimeDelta)')
                else:
                    rep.violation('R3', 'panicking-op/%s/%s' % (tr.rsplit('::', 1)[-1], opkey(t)), F.loc_of(t['span']), 'chrono operator %s panics on overflow' % rc)
    sb_ = find_impl_body(fx, 'std::ops::Sub', VALUE)
    diffs = [t for bi, t in sb_.calls() if (CHRONO_OP.match(F.resolved_callee(t) or '') and instant_difference(t)) or re.match(r'^chrono::DateTime::signed_duration_since$', F.norm_callee(t) or '')]
    rep.check(len(diffs) >= 1, 'R3', 'Sub/timestamp-difference-exact', sb_.loc(), 'timestamp - timestamp is chrono\'s instant difference',
              'impl Sub for Value has no chrono instant difference (DateTime - DateTime / signed_duration_since): t1 - t2 is computed some other way')
    for tr in ('std::ops::Add', 'std::ops::Sub'):
        b = find_impl_body(fx, tr, VALUE)
        for bi, t in b.calls():
            n = F.norm_callee(t) or ''
            if re.match(r'^chrono::DateTime::(timestamp|timestamp_millis|timestamp_micros|timestamp_nanos|timestamp_nanos_opt|timestamp_subsec_\w+)$', n):
                rep.violation('R3', 'epoch-count/%s/%s' % (tr.rsplit('::', 1)[-1], n.rsplit('::', 1)[-1]), F.loc_of(t['span']),
                              'timestamp arithmetic goes through %s: an i64 epoch count covers only 1677..2262 in nanoseconds and drops sub-unit precision otherwise, so years 0001, 1600, 9999 give wrong differences' % n)
    # ---------------- R4
    ts_fn = reg.get('timestamp')
    if not ts_fn:
        rep.violation('R4', 'timestamp()/registered', d.loc(), 'timestamp is not registered')
    else:
        b = [x for x in fx.bodies.values() if F.norm_path(x.path) == ts_fn][0]
        rep.analysed(b)
        b = fx.inline_view(b.path)          # the parse may sit in a private helper (`_timestamp`)
        pv = F.Prov(b)
        ps = [(bi, t) for bi, t in b.calls() if F.norm_callee(t) == 'chrono::DateTime::parse_from_rfc3339']
        okk = len(ps) == 1 and all(x == ('param', 1) for x in pv.of_operand(ps[0][1]['args'][0]))
        rep.check(okk, 'R4', 'timestamp()/parse_from_rfc3339(whole argument)', b.loc(), 'DateTime::parse_from_rfc3339(value)', 'timestamp() does not parse its whole argument as RFC 3339')
    sb = fx.body('cel_interpreter::functions::string')
    spv = F.Prov(sb)
    tr_ = [(bi, t) for bi, t in sb.calls() if F.norm_callee(t) == 'chrono::DateTime::to_rfc3339']
    okk = len(tr_) == 1 and all(x[0] == 'f' and x[1][0] == 'dc' and x[1][2] == 'Timestamp' for x in spv.of_operand(tr_[0][1]['args'][0]))
    rep.check(okk, 'R4', 'string(timestamp)/to_rfc3339', sb.loc(), 'string(t) = t.to_rfc3339()', 'string(timestamp) is not to_rfc3339 of the payload')
    rep.floor('R1', 20)
    rep.floor('R2', 4)
    rep.floor('R3', 3)
