"""C20 — function calls bind receiver and arguments predictably."""
import re
from . import facts as F
from .evalmodel import EvalModel, RESOLVE_FNS, short_path, ast_path
from .witness import run_witnesses

LEVEL = 'other'
TRUSTED = ['rustc nightly (MIR, trait resolution; type checker for the witnesses)', 'std HashMap::insert (replaces) / get contracts']
EXPLANATION = ('R1: This::<T>::from_context applies the same T::from_value to the receiver when present and otherwise to the next argument (consuming exactly one), and every built-in registered by Context::default that '
               'uses This<_> has it as its first extractor parameter, so x.f(a..) and f(x, a..) bind identically; R2: no extractor or resolver indexes the argument list blindly (`[]`): they use get() and report '
               'InvalidArgumentCount; R3: FunctionRegistry::add is an unconditional HashMap::insert (a later registration replaces), lookups walk to the root registry; R4: 20 handler adapters exist (arity 0-9 with and '
               'without FunctionContext) and rustc accepts closures of arity 0..9 over every supported parameter type while rejecting arity 10, unsupported parameter/return types and lossy narrow integers; '
               'R5: the call site passes the resolved receiver as `this`, the unevaluated arguments unchanged and in order, the function name, and a zero argument cursor.')
ASSUMPTIONS = ['the body of a host function is the host\'s; only binding is decided', 'conversion of an argument to the declared parameter type is FromValue (exact variant match, no coercion), witnessed by rustc rejecting i32 parameters']

MAGIC = 'cel_interpreter::magic::'
CTX = 'cel_interpreter::context::Context'
EXPR_VEC = re.compile(r'Vec<cel_parser::(ast::IdedExpr|Expression)')


def run(fx, rep):
    rep.rule('R1', 'This binds receiver and first argument identically and comes first in every built-in that uses it')
    rep.rule('R2', 'extractors/resolvers never index the argument list with []')
    rep.rule('R3', 'registry: add = unconditional insert (replace); lookups walk to the root')
    rep.rule('R4', '20 handler adapters; arity/type witnesses')
    rep.rule('R5', 'call site: this = resolved receiver, args unevaluated and unchanged, cursor 0')
    # ---------------- R1
    thisb = [x for x in fx.bodies.values() if x.raw.get('impl_trait') == MAGIC + 'FromContext' and x.raw.get('impl_self', '').startswith(MAGIC + 'This<') and x.raw['kind'] == 'AssocFn']
    if len(thisb) != 1:
        raise F.Lost('This<T>::from_context not found')
    b = thisb[0]
    rep.analysed(b, calls=sum(1 for _ in b.calls()))
    pv = F.Prov(b)
    fv = [(bi, t) for bi, t in b.calls() if F.norm_callee(t) == MAGIC + 'FromValue::from_value']
    okk = len(fv) == 2 and all(t['callee']['args'][0] == 'T' for _, t in fv)
    srcs = []
    if okk:
        for bi, t in fv:
            ts = pv.of_operand(t['args'][0])
            if all(x == ('dc', ('f', ('param', 1), 'this'), 'Some') or x == ('f', ('param', 1), 'this') for x in ts):
                srcs.append('receiver')
            elif all(x[0] == 'call' and x[1] == MAGIC + 'arg_value_from_context' for x in ts):
                srcs.append('argument')
            else:
                srcs.append('? ' + ','.join(map(F.term_str, ts)))
        okk = sorted(srcs) == ['argument', 'receiver']
    rep.check(okk, 'R1', 'This/same-conversion-on-receiver-and-argument', b.loc(), 'T::from_value(receiver) | T::from_value(next argument)',
              'This::from_context does not apply the same T::from_value to receiver and first argument (%s)' % srcs)
    # both results wrapped in This
    aggs = [s for _, _, s in b.stmts() if s['k'] == 'Assign' and s['rv']['k'] == 'Aggregate' and s['rv'].get('adt') == MAGIC + 'This']
    # one `This(..)` per branch, or a single one after the branches joined: every value that can be wrapped is a from_value result, and both are
    wrapped = [x for s in aggs for x in pv.of_operand(s['rv']['ops'][0])]
    okk = 1 <= len(aggs) <= 2 and bool(wrapped) and all(x[0] == 'call' and x[1] == MAGIC + 'FromValue::from_value' for x in wrapped) and len({x[3] for x in wrapped}) == 2
    rep.check(okk, 'R1', 'This/wraps-converted-value', b.loc(), 'This(T::from_value(..)) in both branches', 'This does not wrap the converted value in both branches')
    # signature table of the registrations
    dflt = [x for x in fx.bodies.values() if x.raw.get('impl_trait') == 'std::default::Default' and x.raw.get('impl_self', '').startswith(CTX) and x.raw['kind'] == 'AssocFn']
    if len(dflt) != 1:
        raise F.Lost('Context::default not found')
    d = dflt[0]
    rep.analysed(d)
    run._dpv = None
    regs = [(bi, t) for bi, t in d.calls() if F.norm_callee(t) == CTX + '::add_function']
    n_this = 0
    names = []
    for bi, t in regs:
        dpv = getattr(run, '_dpv', None) or F.Prov(d)
        run._dpv = dpv
        nts = dpv.of_operand(t['args'][1])
        name = next(iter(nts))[1] if len(nts) == 1 and next(iter(nts))[0] == 'const' else F.op_const(t['args'][1])
        ga = t['callee']['args']
        tup = [g for g in ga if g.startswith('(') ]
        params = split_tuple(tup[0]) if tup else []
        names.append(name)
        if params and params[0].endswith('WithFunctionContext'):
            params = params[1:]
        this_pos = [i for i, p in enumerate(params) if p.startswith(MAGIC + 'This<')]
        if this_pos:
            n_this += 1
            rep.check(this_pos == [0], 'R1', 'builtin/%s/This-first' % name, F.loc_of(t['span']), 'parameters: %s' % ', '.join(short(p) for p in params),
                      'built-in %s takes This at position %s: x.%s(..) and %s(x, ..) bind differently' % (name, this_pos, name, name))
        else:
            rep.ok('R1', 'builtin/%s/no-receiver' % name, F.loc_of(t['span']), 'parameters: %s' % ', '.join(short(p) for p in params))
    rep.check(len(set(names)) == len(names), 'R1', 'builtin/names-distinct', d.loc(), '%d distinct names' % len(names), 'a built-in name is registered twice in Context::default')
    feats = fx.features('cel_interpreter')
    exp = 11 + (1 if 'regex' in feats else 0) + (12 if 'chrono' in feats else 0)
    rep.check(len(regs) == exp, 'R1', 'builtin/count', d.loc(), '%d registrations' % len(regs), 'expected %d registrations for features %s, found %d' % (exp, sorted(feats), len(regs)))
    # ---------------- R2
    scope = [x for x in fx.bodies.values() if x.crate == 'cel_interpreter' and x.raw['kind'] != 'Promoted' and
             (x.loc().startswith('interpreter/src/magic.rs') or x.loc().startswith('interpreter/src/resolvers.rs'))]
    nacc = 0
    for x in scope:
        for bi, t in x.calls():
            n = F.norm_callee(t)
            if n in ('std::ops::Index::index', 'std::ops::IndexMut::index_mut') and EXPR_VEC.search(t['arg_tys'][0]):
                nacc += 1
                rep.violation('R2', 'blind-index/%s' % F.norm_path(x.path), F.loc_of(t['span']),
                              '`args[idx]` in %s: a call with too few arguments panics instead of yielding InvalidArgumentCount' % F.norm_path(x.path))
            if n == 'core::slice::<impl [T]>::get' and ('IdedExpr' in t['arg_tys'][0] or 'Expression' in t['arg_tys'][0]):
                nacc += 1
                rep.ok('R2', 'checked-get/%s' % F.norm_path(x.path), F.loc_of(t['span']), 'args.get(idx)')
        rep.analysed(x)
    for nm in ('arg_value_from_context', 'arg_expr_from_context'):
        x = fx.body(MAGIC + nm)
        errs = list(reaches_error(fx, x))
        rep.check('InvalidArgumentCount' in errs or 'invalid_argument_count' in errs, 'R2', '%s/missing-argument-is-an-error' % nm, x.loc(),
                  'missing argument -> InvalidArgumentCount', '%s has no InvalidArgumentCount path for a missing argument' % nm)
    # ---------------- R3
    add = fx.body(MAGIC + 'FunctionRegistry::add')
    rep.analysed(add)
    apv = F.Prov(add)
    ins = [(bi, t) for bi, t in add.calls() if F.norm_callee(t) == 'std::collections::HashMap::insert']
    other = [F.norm_callee(t) for bi, t in add.calls() if (F.norm_callee(t) or '').startswith('std::collections::HashMap::') and F.norm_callee(t) != 'std::collections::HashMap::insert']
    okk = len(ins) == 1 and not other
    if okk:
        bi, t = ins[0]
        okk = all(x == ('f', ('param', 1), 'functions') for x in apv.of_operand(t['args'][0])) and all(x == ('param', 2) for x in apv.of_operand(t['args'][1])) \
            and all(x[0] == 'call' and x[1] == MAGIC + 'IntoFunction::into_function' and x[2][0] == ('param', 3) for x in apv.of_operand(t['args'][2])) \
            and all(add.dominates(bi, r) for r, _ in add.terms('Return'))
    rep.check(okk, 'R3', 'add/unconditional-insert(name, into_function(f))', add.loc(), 'functions.insert(name, f.into_function()) on every path',
              'FunctionRegistry::add is not an unconditional insert (other map calls: %s): a later registration may not replace the earlier one' % other)
    af = [x for x in fx.bodies.values() if F.norm_path(x.path) == CTX + '::add_function']
    okk = len(af) == 1
    if okk:
        x = af[0]
        xpv = F.Prov(x)
        calls = [(bi, t) for bi, t in x.calls() if F.norm_callee(t) == MAGIC + 'FunctionRegistry::add']
        okk = len(calls) == 1 and all(y == ('f', ('dc', ('param', 1), 'Root'), 'functions') for y in xpv.of_operand(calls[0][1]['args'][0])) \
            and all(y == ('param', 2) for y in xpv.of_operand(calls[0][1]['args'][1])) and all(y == ('param', 3) for y in xpv.of_operand(calls[0][1]['args'][2]))
    rep.check(okk, 'R3', 'add_function/root-registry(name, f)', af[0].loc() if af else '-', 'root.functions.add(name, f)', 'Context::add_function does not add (name, f) to the root registry')
    for nm, reg in (('get_function', 'get'), ('has_function', 'has')):
        xs = [x for x in fx.bodies.values() if F.norm_path(x.path) == CTX + '::' + nm]
        if len(xs) != 1:
            raise F.Lost('Context::%s not found' % nm)
        x = xs[0]
        rep.analysed(x)
        xpv = F.Prov(x)
        rc = [(bi, t) for bi, t in x.calls() if F.norm_path((t.get('callee') or {}).get('res') or '') == CTX + '::' + nm]
        rg = [(bi, t) for bi, t in x.calls() if F.norm_callee(t) == MAGIC + 'FunctionRegistry::' + reg]
        okk = len(rc) == 1 and len(rg) == 1 and all(y == ('f', ('dc', ('param', 1), 'Child'), 'parent') for y in xpv.of_operand(rc[0][1]['args'][0])) \
            and all(y == ('f', ('dc', ('param', 1), 'Root'), 'functions') for y in xpv.of_operand(rg[0][1]['args'][0])) \
            and all(y == ('param', 2) for y in xpv.of_operand(rc[0][1]['args'][1])) and all(y == ('param', 2) for y in xpv.of_operand(rg[0][1]['args'][1]))
        rep.check(okk, 'R3', '%s/walks-to-root' % nm, x.loc(), 'Child -> parent.%s(name); Root -> functions.%s(name)' % (nm, reg), '%s does not walk to the root registry with the same name' % nm)
    for nm, meth in (('get', 'std::collections::HashMap::get'), ('has', 'std::collections::HashMap::contains_key')):
        x = fx.body(MAGIC + 'FunctionRegistry::' + nm)
        xpv = F.Prov(x)
        cs = [(bi, t) for bi, t in x.calls() if F.norm_callee(t) == meth]
        okk = len(cs) == 1 and all(y == ('f', ('param', 1), 'functions') for y in xpv.of_operand(cs[0][1]['args'][0])) and all(y == ('param', 2) for y in xpv.of_operand(cs[0][1]['args'][1]))
        rep.check(okk, 'R3', 'registry-%s/by-name' % nm, x.loc(), 'functions.%s(name)' % meth.rsplit('::', 1)[-1], 'FunctionRegistry::%s does not look the given name up' % nm)
    # ---------------- R6 conversion table of FromValue (argument -> declared parameter type)
    rep.rule('R6', 'FromValue: each parameter type accepts exactly its own Value variant (Option<T> additionally Null -> None); anything else is UnexpectedType')
    kinds = {'bool': 'Bool', 'i64': 'Int', 'u64': 'UInt', 'f64': 'Float', 'std::sync::Arc<std::string::String>': 'String', 'std::sync::Arc<std::vec::Vec<u8>>': 'Bytes',
             'std::sync::Arc<std::vec::Vec<cel_interpreter::objects::Value>>': 'List', 'chrono::TimeDelta': 'Duration', 'chrono::DateTime<chrono::FixedOffset>': 'Timestamp'}
    fvs = [x for x in fx.bodies.values() if x.raw.get('impl_trait') == MAGIC + 'FromValue' and x.raw['kind'] == 'AssocFn']
    for x in sorted(fvs, key=lambda y: y.raw.get('impl_self', '')):
        st = x.raw.get('impl_self', '')
        rep.analysed(x)
        xpv = F.Prov(x)
        rets = {F.term_str(t) for _, ts in xpv.per_def(0) for t in ts}
        errs = {r for r in rets if r.startswith('Err{UnexpectedType{')}
        oks = rets - errs
        mm = re.match(r'^std::option::Option<(.*)>$', st)
        inner = mm.group(1) if mm else st
        if st == 'cel_interpreter::objects::Value':
            okk = rets == {'Ok{arg1}'}
            want = 'Ok{arg1}'
        elif inner in kinds:
            v = kinds[inner]
            want = {'Ok{Some{(arg1 as %s).0}}' % v, 'Ok{None{}}'} if mm else {'Ok{(arg1 as %s).0}' % v}
            okk = oks == want and len(errs) == 1
            if okk and mm:
                # None only for Value::Null
                vn = {vv['idx']: vv['name'] for vv in fx.adt('cel_interpreter::objects::Value')['variants']}
                sw = x.blocks[0]['term']
                none_blocks = [bi for bi, j, s_ in x.stmts() if s_['k'] == 'Assign' and s_['rv']['k'] == 'Aggregate' and s_['rv'].get('variant') == 'None']
                okk = sw['k'] == 'SwitchInt' and bool(none_blocks)
                if okk:
                    null_t = [tg for val, tg in sw['arms'] if vn.get(int(val)) == 'Null']
                    okk = len(null_t) == 1 and all(x.dominates(null_t[0], nb) or nb == null_t[0] for nb in none_blocks)
        else:
            okk = False
            want = 'a known parameter type'
        rep.check(okk, 'R6', 'FromValue/%s' % re.sub(r'(\w+::)+', '', st)[:50], x.loc(), ' | '.join(sorted(oks)),
                  'FromValue for %s returns %s (errors: %d): a wrongly typed argument must be UnexpectedType, never converted/defaulted (expected %s)' % (st, sorted(oks), len(errs), want))
    rep.floor('R6', 15 if 'chrono' not in fx.features('cel_interpreter') else 19)
    # ---------------- R4
    ad = [x for x in fx.bodies.values() if re.match(r'^<F as cel_interpreter::magic::IntoFunction<\(.*\)>>::into_function$', x.path)]
    shapes = set()
    for x in ad:
        mm = re.match(r'^<F as cel_interpreter::magic::IntoFunction<\((.*)\)>>', x.path)
        params = [p.strip() for p in mm.group(1).split(',') if p.strip()]
        shapes.add((bool(params) and params[0].endswith('WithFunctionContext'), len([p for p in params if re.match(r'^C\d+$', p)])))
    want = {(c, n) for c in (False, True) for n in range(10)}
    rep.check(shapes == want, 'R4', 'adapters/arity-0-9-with-and-without-context', '-', '20 IntoFunction impls', 'adapter set differs: missing %s extra %s' % (sorted(want - shapes), sorted(shapes - want)))
    # ---------------- R5
    m = EvalModel(fx)
    ev, epv = m.b, m.pv
    rep.analysed(ev)
    news = [(bi, t) for bi, t in ev.calls() if F.norm_callee(t) == 'cel_interpreter::functions::FunctionContext::new']
    rep.check(len(news) >= 1, 'R5', 'call-site/constructions-found', ev.loc(), '%d FunctionContext construction(s)' % len(news), 'no FunctionContext construction found in the evaluator')
    kinds_seen = set()
    for bi, t in news:
        a = [epv.of_operand(x) for x in t['args']]
        name_ok = all(short_path(ast_path(x)) == 'Call.func_name' for x in a[0])
        def is_none(x):
            return x[0] == 'agg' and x[1].endswith('Option::None')
        def is_recv(x):
            return x[0] == 'agg' and x[1].endswith('Option::Some') and x[2][0][0] == 'call' and x[2][0][1] in RESOLVE_FNS and short_path(ast_path(x[2][0][2][0])) == 'Call.target'
        this_none = all(is_none(x) for x in a[1])
        this_recv = all(is_recv(x) for x in a[1])
        this_both = bool(a[1]) and all(is_none(x) or is_recv(x) for x in a[1])      # one construction shared by both call forms
        ctx_ok = all(x == ('param', 2) for x in a[2])
        args_ok = all(short_path(ast_path(x)) == 'Call.args' for x in a[3])
        kind = 'method' if this_recv else ('function' if this_none else ('method+function' if this_both else '?'))
        kinds_seen |= set(kind.split('+'))
        rep.check(name_ok and ctx_ok and args_ok and kind != '?', 'R5', 'call-site/%s' % kind, F.loc_of(t['span']), 'FunctionContext::new(func_name, %s, ctx, call.args.clone())' % ('Some(resolve(target))' if this_recv else 'None'),
                  'call site builds the function context from (%s; %s; %s; %s)' % tuple(','.join(map(F.term_str, x))[:80] for x in a))
    rep.check({'method', 'function'} <= kinds_seen, 'R5', 'call-site/both-call-forms', ev.loc(), 'receiver form and function form are both dispatched', 'call forms dispatched: %s' % sorted(kinds_seen))
    # the dispatch receives that context and the looked-up function
    nb = fx.body('cel_interpreter::functions::FunctionContext::new') if 'cel_interpreter::functions::FunctionContext::new' in fx.bodies else \
        [x for x in fx.bodies.values() if F.norm_path(x.path) == 'cel_interpreter::functions::FunctionContext::new'][0]
    npv = F.Prov(nb)
    agg = [s for _, _, s in nb.stmts() if s['k'] == 'Assign' and s['rv']['k'] == 'Aggregate' and s['rv'].get('adt', '').endswith('FunctionContext')]
    okk = len(agg) == 1
    if okk:
        f = dict(zip(agg[0]['rv']['fields'], agg[0]['rv']['ops']))
        okk = all(npv.of_operand(f[k]) == {('param', i)} for k, i in (('name', 1), ('this', 2), ('ptx', 3), ('args', 4))) and F.op_const(f['arg_idx']) == 0
    rep.check(okk, 'R5', 'FunctionContext::new/fields', nb.loc(), 'name, this, ptx, args stored as given; arg_idx = 0', 'FunctionContext::new does not store its parameters as given with a zero cursor')
    rep.floor('R1', 14 if 'chrono' not in feats else 20)
    rep.floor('R2', 3)
    # ---------------- R7 only operators are evaluated in place
    rep.rule('R7', 'the evaluator special-cases operator names only; every other name is looked up in the function registry (so a host function replaces a built-in)')
    from .evalmodel import OPERATORS, STR_EQ
    m7 = EvalModel(fx)
    nop = 0
    for bi, t in m7.b.calls():
        if F.norm_callee(t) not in STR_EQ or len(t['args']) != 2:
            continue
        sides = [m7.pv.of_operand(a) for a in t['args']]
        consts = [x[1] for sd in sides for x in sd if x[0] == 'const' and isinstance(x[1], str)]
        onname = any((ast_path(x) or ())[-1:] == ('func_name',) for sd in sides for x in sd if x[0] != 'const')
        if not onname or not consts:
            continue
        for c in consts:
            nop += 1
            rep.check(c in OPERATORS, 'R7', 'evaluated-in-place/%s' % c, F.loc_of(t['span']), 'operator %s' % c,
                      'Value::resolve evaluates calls of %r in place: a host function registered under that name never runs for that call shape, and x.%s() and %s(x) can disagree' % (c, c, c))
    rep.floor('R7', 19)
    # ---------------- R9 variadic resolution keeps every argument or fails
    rep.rule('R9', 'the all-arguments resolvers push the value of every argument in order or propagate its error: a function is never invoked with a shorter, shifted argument list')
    DROP = re.compile(r'::(flat_map|filter_map|flatten|filter|ok|unwrap_or|unwrap_or_default|unwrap_or_else|take_while|map_while|skip_while|skip|take|step_by|rev|last|nth)$')
    for path in ('<cel_interpreter::resolvers::AllArguments as cel_interpreter::resolvers::Resolver>::resolve', 'cel_interpreter::objects::Value::resolve_all'):
        ab = fx.bodies.get(path)
        if ab is None:
            raise F.Lost('%s not found' % path)
        short9 = 'AllArguments::resolve' if 'AllArguments' in path else 'Value::resolve_all'
        bodies9 = [ab] + [fx.bodies[c] for c in fx.children.get(ab.path, [])]
        drops = sorted({F.norm_callee(t) for bb in bodies9 for bi, t in bb.calls() if DROP.search(F.norm_callee(t) or '')})
        okp = False
        for bb in bodies9:
            pv9 = F.Prov(bb, transparent={})
            for bi, t in bb.calls():
                if F.norm_callee(t) in RESOLVE_FNS:
                    users = sorted({F.norm_callee(t2) or '?' for b2, t2 in bb.calls() if b2 != bi and any(x[0] == 'call' and x[3] == bi for a_ in t2['args'] for x in pv9.of_operand(a_))})
                    okp = users == ['std::ops::Try::branch'] or (users == [] and bb is not ab)     # `?` in a loop body, or the closure of map(..).collect::<Result<_,_>>()
        coll = [t for bb in bodies9 for bi, t in bb.calls() if F.norm_callee(t) == 'std::iter::Iterator::collect']
        okc = all('Result<' in str((t['callee'].get('args') or [''])[-1]) for t in coll)
        rep.check(not drops and okp and okc, 'R9', 'all-arguments/%s' % short9, ab.loc(), 'each argument value is pushed, each error propagated',
                  '%s %s: a failing argument is dropped instead of aborting the call, so the function runs with different data' %
                  (short9, ('uses ' + ', '.join(drops)) if drops else 'does not route the result of Value::resolve through `?` / a Result collection'))
    # ---------------- R8 who may read the unevaluated call
    rep.rule('R8', 'only the extractors and resolvers read FunctionContext.{args, arg_idx, this, ptx}: a built-in that inspects the raw argument expressions behaves differently for x.f(a) and f(x, a)')
    ALLOWED8 = re.compile(r'^(cel_interpreter::magic::(arg_expr_from_context|arg_value_from_context)|<cel_interpreter::magic::This<T> as cel_interpreter::magic::FromContext<.*>>::from_context|'
                          r'<(cel_parser::Expression|cel_interpreter::resolvers::(Argument|AllArguments)) as cel_interpreter::resolvers::Resolver>::resolve|cel_interpreter::functions::FunctionContext(::<.*>)?::\w+)(::\{closure#\d+\})*$')
    n8 = 0
    for ib in fx.bodies.values():
        if ib.crate != 'cel_interpreter' or ib.is_derived() or ib.raw['kind'] == 'Promoted':
            continue
        n8 += 1
        hits = set()
        def scan(o):
            if isinstance(o, dict):
                if 'l' in o and isinstance(o.get('p'), list):
                    ty = ib.locals[o['l']]['ty'] if o['l'] < len(ib.locals) else ''
                    if 'FunctionContext' in ty:
                        for pr in o['p']:
                            if pr.get('k') == 'Field' and pr.get('name') in ('args', 'arg_idx', 'this', 'ptx'):
                                hits.add(pr['name'])
                            if pr.get('k') == 'Field':
                                break       # only the first field below the context itself
                for v in o.values():
                    scan(v)
            elif isinstance(o, list):
                for v in o:
                    scan(v)
        scan(ib.raw['blocks'])
        okpath = ALLOWED8.match(F.norm_path(ib.path) if not ib.path.startswith('<') else ib.path)
        # each reader may touch only its own part of the call: positional extractors the argument list and cursor (never the
        # receiver), `This` the receiver, the resolvers the arguments and the parent context
        per = None
        if re.search(r'magic::arg_(value|expr)_from_context', ib.path):
            per = {'args', 'arg_idx', 'ptx'}
        elif 'magic::This<T>' in ib.path:
            per = {'this'}
        elif 'resolvers::Resolver>::resolve' in ib.path:
            per = {'args', 'ptx'}
        if okpath and per is not None and hits - per:
            fn = re.sub(r'::\{closure#\d+\}', '/closure', F.norm_path(ib.path).split('::', 1)[-1])
            rep.violation('R8', 'raw-call-access/%s/%s' % (re.sub(r'<.*?>', '', fn)[:60].replace(' ', ''), '+'.join(sorted(hits - per))), ib.loc(),
                          '%s reads FunctionContext.%s, which is not its part of the call: a missing argument must be an error, not silently replaced by the receiver (or vice versa)' % (F.norm_path(ib.path), '/'.join(sorted(hits - per))))
        if hits and not okpath:
            fn = re.sub(r'::\{closure#\d+\}', '/closure', F.norm_path(ib.path).split('::', 1)[-1])
            rep.violation('R8', 'raw-call-access/%s/%s' % (fn, '+'.join(sorted(hits))), ib.loc(),
                          '%s reads FunctionContext.%s directly: only the extractors may look at the unevaluated call (the first raw argument is the receiver in f(x, a) but the first argument in x.f(a))' % (F.norm_path(ib.path), '/'.join(sorted(hits))))
    rep.check(n8 >= 250, 'R8', 'bodies-scanned', 'interpreter/src', '%d interpreter bodies scanned' % n8, 'only %d bodies scanned (anchor lost)' % n8)
    rep.floor('R3', 6)


def short(p):
    return re.sub(r'(\w+::)+', '', p)


def split_tuple(s):
    s = s.strip()
    assert s.startswith('(') and s.endswith(')')
    s = s[1:-1]
    out, depth, cur = [], 0, ''
    for ch in s:
        if ch in '<(':
            depth += 1
        elif ch in '>)':
            depth -= 1
        if ch == ',' and depth == 0:
            if cur.strip():
                out.append(cur.strip())
            cur = ''
        else:
            cur += ch
    if cur.strip():
        out.append(cur.strip())
    return out


def reaches_error(fx, b, depth=0):
    """error constructors reachable from b through local calls (names of variants / helper fns)"""
    seen = set()
    todo = [b]
    while todo:
        x = todo.pop()
        if x.path in seen:
            continue
        seen.add(x.path)
        for bb in fx.bodies_with_closures(x.path):
            for _, _, s in bb.stmts():
                if s['k'] == 'Assign' and s['rv']['k'] == 'Aggregate' and s['rv'].get('adt', '').endswith('ExecutionError'):
                    yield s['rv']['variant']
            for bi, t in bb.calls():
                c = t.get('callee') or {}
                n = F.norm_callee(t) or ''
                if n.startswith('cel_interpreter::ExecutionError::'):
                    yield n.rsplit('::', 1)[-1]
                rp = c.get('res')
                if rp and rp in fx.bodies and len(seen) < 12 and fx.bodies[rp].crate == 'cel_interpreter':
                    todo.append(fx.bodies[rp])
                if n == 'cel_interpreter::functions::FunctionContext::resolve':
                    # generic over the resolver: follow the Resolver impl named by the generic argument
                    ga = c.get('args', [])
                    for p, bb2 in fx.bodies.items():
                        if bb2.raw.get('impl_trait') == 'cel_interpreter::resolvers::Resolver' and ga and bb2.raw.get('impl_self') == ga[-1]:
                            todo.append(bb2)


def run_once(rep, tier, repo, here):
    rep.rule('W', 'rustc-checked witnesses: arity 0-9 over every parameter type compile; arity 10, unsupported parameter/return types and i32 parameters are rejected')
    run_witnesses(rep, 'W', 'c20', repo, here)
