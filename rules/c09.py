"""C09 — equality and ordering are coherent and numerically exact (claimed clauses R1-R5)."""
import re
from . import facts as F
from .evalmodel import EvalModel, value_of_resolve
from .c08 import decision_pairs, variant_names, find_impl_body
from .intervals import check_float_to_int_casts, check_int_to_int_casts
from .report import Collector, expect_fixture_hits

LEVEL = 'other'
TRUSTED = ['rustc nightly (MIR, impl tables)', "std: Ord/PartialOrd of i64/u64/f64/String/bool, derived PartialEq of Vec/HashMap, provided PartialEq::ne == !eq"]
EXPLANATION = ('R1: the four relational arms map Value::partial_cmp(left,right) to a boolean by LESS: ==Less, LESS_EQUALS: !=Greater, GREATER: ==Greater, GREATER_EQUALS: !=Less with None -> '
               'ValuesNotComparable; EQUALS uses PartialEq::eq, NOT_EQUALS the provided PartialEq::ne and `impl PartialEq for Value` does not override ne, so != is the negation of == by construction. '
               'R2: every variant pair with its own arm in partial_cmp has its own arm in eq; catch-all arms return false / None. R3: no int->float cast of a non-constant 64-bit integer feeds a comparison in '
               'eq/partial_cmp or their helpers (such a cast is lossy above 2^53), and float->int casts in the comparison helpers are dominated by NaN-excluding range guards. R4: the min/max folds keep the '
               'accumulator on Greater (max) / Less (min), otherwise the element, return one of the inputs and report None as ValuesNotComparable. Transitivity/trichotomy over all values are not decided.')
ASSUMPTIONS = ['string code-point order is inherent in String: Ord; list/map equality is the derived structural PartialEq', 'transitivity and trichotomy over all values are value-level and not decided']

VALUE = 'cel_interpreter::objects::Value'
REL = {'_<_': ('LESS', 'eq', 'Less'), '_<=_': ('LESS_EQUALS', 'ne', 'Greater'), '_>_': ('GREATER', 'eq', 'Greater'), '_>=_': ('GREATER_EQUALS', 'ne', 'Less')}
NUMERIC = ('Int', 'UInt', 'Float')


def ordering_const(term):
    """'Less'/'Equal'/'Greater' if the term is a constant Ordering"""
    if term[0] == 'const' and isinstance(term[1], tuple) and term[1][0] == 'promoted':
        term = term[1][1]
    if term[0] == 'agg' and term[1].startswith('std::cmp::Ordering::'):
        return term[1].rsplit('::', 1)[-1]
    return None


def comparison_bodies(fx, value_ty):
    """eq / partial_cmp of Value with their closures and the local helper functions they call"""
    out = []
    for tr in ('std::cmp::PartialEq', 'std::cmp::PartialOrd'):
        b = find_impl_body(fx, tr, value_ty)
        todo = [b.path]
        seen = set()
        while todo:
            p = todo.pop()
            if p in seen or p not in fx.bodies:
                continue
            seen.add(p)
            for bb in fx.bodies_with_closures(p):
                if bb not in out:
                    out.append(bb)
                for bi, t in bb.calls():
                    c = t.get('callee') or {}
                    rp = c.get('res') or c.get('path')
                    if c.get('res_local') and rp in fx.bodies and fx.bodies[rp].crate == b.crate and 'objects' in fx.bodies[rp].loc() and not fx.bodies[rp].is_derived():
                        # local free helper functions (not other trait impls of Value)
                        if fx.bodies[rp].raw.get('impl_trait') is None and fx.bodies[rp].raw['kind'] in ('Fn', 'AssocFn'):
                            todo.append(rp)
    return out


def core_casts(fx, rep, value_ty):
    rep.rule('R3', 'no lossy int->float cast feeds a comparison; float->int casts in comparison helpers are range- and NaN-guarded')
    n = 0
    for bb in comparison_bodies(fx, value_ty):
        rep.analysed(bb, calls=sum(1 for _ in bb.calls()))
        for bi, j, s in bb.stmts():
            if s['k'] == 'Assign' and s['rv']['k'] == 'Cast' and s['rv']['kind'] == 'IntToFloat' and s['rv']['from'] in ('i64', 'u64', 'i128', 'u128', 'isize', 'usize'):
                if s['rv']['op']['k'] == 'Const':
                    continue
                n += 1
                rep.violation('R3', 'lossy-cast/%s/%s->%s/%d' % (F.norm_path(bb.path).rsplit('::', 2)[-2] if '{closure' in bb.path else F.norm_path(bb.path).rsplit('::', 1)[-1],
                                                                 s['rv']['from'], s['rv']['to'], sum(1 for k in getattr(rep, 'inst', {}) if k[0] == 'R3' and 'lossy-cast/' in k[1] and F.loc_of(s['span']).split(':')[0] in '')),
                              F.loc_of(s['span']), 'comparison converts a %s to %s (`as`): integers above 2^53 lose precision, e.g. 9007199254740993 == 9007199254740992.0' % (s['rv']['from'], s['rv']['to']))
        check_float_to_int_casts(bb, rep, 'R3')
        check_int_to_int_casts(bb, rep, 'R3')
    return n


def run(fx, rep):
    from .report import producer_rules
    producer_rules(fx, rep, 'producer rule: the parser builds relation nodes from their own children with the operator the source shows (C04 R3/R7/R9)', [('c04', 'C04', '^(R3/visit_relation/|R7/visit_relation/|R9/|R3/find_operator/|R3/token-literal/)')], 8)
    rep.rule('R1', 'relation-operator table; != is the provided negation of ==')
    rep.rule('R2', 'orderable variant pairs are a subset of equatable pairs; catch-alls return false / None')
    rep.rule('R4', 'min/max fold polarity, result is one of the inputs, None -> ValuesNotComparable')
    m = EvalModel(fx)
    b = m.b
    pv = m.pv
    arms = m.arms()
    rep.analysed(b)
    # ---------------- R1
    for op, (nm, how, const) in REL.items():
        if op not in arms:
            raise F.Lost('arm %s missing' % op)
        region = b.reachable_from([arms[op]['entry']]) - b.reachable_from([arms[op]['miss']])
        pcs = [(bi, t) for bi, t in b.calls() if bi in region and F.resolved_callee(t) == '<%s as std::cmp::PartialOrd>::partial_cmp' % VALUE]
        okk = len(pcs) == 1
        detail = ''
        if okk:
            a0 = pv.of_operand(pcs[0][1]['args'][0])
            a1 = pv.of_operand(pcs[0][1]['args'][1])
            okk = all(value_of_resolve(x, 0) for x in a0) and all(value_of_resolve(x, 1) for x in a1)
            detail = 'partial_cmp(%s ; %s)' % (','.join(map(F.term_str, a0)), ','.join(map(F.term_str, a1)))
        rep.check(okk, 'R1', '%s/partial_cmp(left,right)' % nm, arms[op]['loc'], 'left is the receiver', 'operands of partial_cmp are not (value of args[0], value of args[1]): ' + detail)
        cmps = [(bi, t) for bi, t in b.calls() if bi in region and F.norm_callee(t) in ('std::cmp::PartialEq::eq', 'std::cmp::PartialEq::ne') and 'std::cmp::Ordering' in t['arg_tys'][0]]
        okk = len(cmps) == 1
        got = None
        if okk:
            bi, t = cmps[0]
            hw = F.norm_callee(t).rsplit('::', 1)[-1]
            cs = {ordering_const(x) for x in pv.of_operand(t['args'][1])}
            lhs = pv.of_operand(t['args'][0])
            # alternatives that cannot reach a comparison (the Err / residual side of a `?` inside a spliced helper) do not count
            def error_alt(x):
                return (x[0] == 'agg' and x[1].endswith('Result::Err')) or (x[0] == 'f' and x[1][0] == 'dc' and x[1][2] == 'Break')
            lhs = [x for x in lhs if not error_alt(x)]
            from_pc = bool(lhs) and all(F.term_contains(x, lambda y: y[0] == 'call' and y[1] == 'std::cmp::PartialOrd::partial_cmp') for x in lhs)
            got = (hw, cs)
            okk = hw == how and cs == {const} and from_pc
        rep.check(okk, 'R1', '%s/%s-%s' % (nm, how, const), arms[op]['loc'], 'result %s Ordering::%s' % ('==' if how == 'eq' else '!=', const),
                  'relation %s is computed as %s, expected partial_cmp %s Ordering::%s' % (nm, got, '==' if how == 'eq' else '!=', const))
        errs = [s for blk in region for s in b.blocks[blk]['stmts'] if s['k'] == 'Assign' and s['rv']['k'] == 'Aggregate' and s['rv'].get('variant') == 'ValuesNotComparable']
        rep.check(len(errs) >= 1, 'R1', '%s/None->ValuesNotComparable' % nm, arms[op]['loc'], 'incomparable -> ValuesNotComparable', 'no ValuesNotComparable error in the %s arm' % nm)
    for op, nm, meth in (('_==_', 'EQUALS', 'eq'), ('_!=_', 'NOT_EQUALS', 'ne')):
        region = b.reachable_from([arms[op]['entry']]) - b.reachable_from([arms[op]['miss']])
        cs = [(bi, t) for bi, t in b.calls() if bi in region and F.norm_callee(t) == 'std::cmp::PartialEq::' + meth and VALUE in t['arg_tys'][0]]
        okk = len(cs) == 1
        if okk:
            t = cs[0][1]
            okk = all(value_of_resolve(x, 0) for x in pv.of_operand(t['args'][0])) and all(value_of_resolve(x, 1) for x in pv.of_operand(t['args'][1]))
            if meth == 'ne':
                okk = okk and (t['callee'].get('res') or t['callee']['path']).startswith('std::cmp::PartialEq::ne')
        rep.check(okk, 'R1', '%s/PartialEq::%s(left,right)' % (nm, meth), arms[op]['loc'], 'uses PartialEq::%s on (left, right)' % meth, '%s is not PartialEq::%s(left, right)' % (nm, meth))
    imp = [i for i in fx.impls(trait='std::cmp::PartialEq', self_ty=VALUE)]
    okk = len(imp) == 1 and imp[0]['items'] == ['eq']
    rep.check(okk, 'R1', 'impl-PartialEq-does-not-override-ne', F.loc_of(imp[0]['span']) if imp else '-', 'ne is the provided !eq', 'impl PartialEq for Value provides %s: `!=` may differ from the negation of `==`' % (imp[0]['items'] if imp else '?'))
    # ---------------- R2
    vn = variant_names(fx, VALUE)
    eqb = find_impl_body(fx, 'std::cmp::PartialEq', VALUE)
    pcb = find_impl_body(fx, 'std::cmp::PartialOrd', VALUE)
    pe = decision_pairs(eqb, vn)
    pc = decision_pairs(pcb, vn)
    for pair in sorted(pc):
        rep.check(pair in pe, 'R2', 'ordered-pair-is-equatable/%s,%s' % pair, pcb.loc(), 'pair has an arm in eq as well',
                  'pair (%s, %s) is orderable but has no arm in eq: a<=b, a<b and a==b disagree' % pair)
    # numeric cross pairs must be symmetric and complete in both
    for a in NUMERIC:
        for c in NUMERIC:
            rep.check((a, c) in pe and (a, c) in pc, 'R2', 'numeric-pair/%s,%s' % (a, c), eqb.loc(), 'handled by eq and partial_cmp',
                      'numeric pair (%s, %s) missing in %s' % (a, c, 'eq' if (a, c) not in pe else 'partial_cmp'))
    # catch-alls
    def catch_all_value(body):
        t = None
        for bi in sorted(body.live_blocks()):
            st = body.blocks[bi]['term']
            if st['k'] == 'SwitchInt':
                t = st
                break
        blk = t['otherwise']
        seen = 0
        while seen < 6:
            for s in body.blocks[blk]['stmts']:
                if s['k'] == 'Assign' and s['place']['l'] == 0 and not s['place']['p']:
                    return s['rv']
            su = body.succ(blk)
            if len(su) != 1:
                return None
            blk = su[0]
            seen += 1
        return None
    rv = catch_all_value(eqb)
    rep.check(bool(rv) and rv['k'] == 'Use' and rv['op'].get('val') is False, 'R2', 'eq-catch-all-false', eqb.loc(), 'unrelated kinds are unequal', 'eq catch-all does not return false')
    rv = catch_all_value(pcb)
    rep.check(bool(rv) and rv['k'] == 'Aggregate' and rv.get('variant') == 'None', 'R2', 'partial_cmp-catch-all-None', pcb.loc(), 'unrelated kinds are not orderable', 'partial_cmp catch-all does not return None')
    # ---------------- R3
    core_casts(fx, rep, VALUE)
    # ---------------- R5 mixed int/float arms of partial_cmp: operand roles and orientation
    rep.rule('R5', 'mixed numeric arms of partial_cmp: the helper gets (integer side, float side) and the result is reversed exactly when the float is on the left')
    ppv = F.Prov(pcb)
    helpers = [(bi, t) for bi, t in pcb.calls() if (t.get('callee') or {}).get('res_local') and F.norm_callee(t).startswith('cel_interpreter::objects::cmp_')]
    rets = [t for _, ts in ppv.per_def(0) for t in ts]
    for bi, t in helpers:
        a0 = ppv.of_operand(t['args'][0])
        a1 = ppv.of_operand(t['args'][1])
        def side(ts):
            ps = set()
            for x in ts:
                y = x
                while y[0] in ('f', 'dc'):
                    y = y[1]
                ps.add(y[1] if y[0] == 'param' else None)
            return ps.pop() if len(ps) == 1 else None
        si, sf = side(a0), side(a1)
        reversed_ = any(F.term_contains(r, lambda y: y[0] == 'call' and y[1] == 'std::option::Option::map' and len(y[2]) == 2 and y[2][0][0] == 'call' and y[2][0][3] == bi
                                        and y[2][1] == ('const', ('fn', 'std::cmp::Ordering::reverse'))) for r in rets)
        direct = any(r[0] == 'call' and r[3] == bi for r in rets)
        okk = (si, sf) in ((1, 2), (2, 1)) and ((si == 1 and direct and not reversed_) or (si == 2 and reversed_ and not direct))
        rep.check(okk, 'R5', 'partial_cmp/%s/int-side=%s' % (F.norm_callee(t).rsplit('::', 1)[-1], {1: 'self', 2: 'other'}.get(si, '?')), F.loc_of(t['span']),
                  'oriented correctly', 'mixed comparison is mis-oriented: integer side=%s float side=%s reversed=%s direct=%s' % (si, sf, reversed_, direct))
    # ---------------- R6 same-kind arms of partial_cmp
    rep.rule('R6', 'same-kind arms of partial_cmp: (self payload, other payload) compared by the kind\'s own order (Ord::cmp; IEEE partial_cmp for doubles)')
    SAME = {'Int': r'impl std::cmp::Ord for i64>::cmp$', 'UInt': r'impl std::cmp::Ord for u64>::cmp$', 'Float': r'impl std::cmp::PartialOrd for f64>::partial_cmp$',
            'Bool': r'impl std::cmp::Ord for bool>::cmp$', 'String': r'^<std::sync::Arc(<.*>)? as std::cmp::Ord>::cmp$', 'Bytes': r'^<std::sync::Arc(<.*>)? as std::cmp::Ord>::cmp$',
            'Duration': r'^<chrono::TimeDelta as std::cmp::Ord>::cmp$', 'Timestamp': r'^<chrono::DateTime(<.*>)? as std::cmp::Ord>::cmp$'}
    def payload(ts):
        out = set()
        for x in ts:
            y, var = x, None
            while y[0] in ('f', 'dc'):
                if y[0] == 'dc':
                    var = y[2]
                y = y[1]
            out.add((y[1], var) if y[0] == 'param' and var else None)
        return out.pop() if len(out) == 1 else None
    n6 = 0
    for bi, t in pcb.calls():
        if len(t['args']) != 2 or (F.norm_callee(t) or '').startswith('cel_interpreter::objects::cmp_'):
            continue
        p0, p1 = payload(ppv.of_operand(t['args'][0])), payload(ppv.of_operand(t['args'][1]))
        if not p0 or not p1 or p0[1] != p1[1]:
            continue
        n6 += 1
        v = p0[1]
        rc = F.resolved_callee(t) or F.norm_callee(t) or ''
        okk = v in SAME and re.search(SAME[v], rc) and (p0[0], p1[0]) == (1, 2)
        rep.check(bool(okk), 'R6', 'same-kind/%s' % v, F.loc_of(t['span']), '%s payloads compared (self, other) by %s' % (v, rc),
                  '(%s, %s) arm compares (%s, %s) with %s; expected (self, other) with %s%s' % (v, v, {1: 'self', 2: 'other'}.get(p0[0]), {1: 'self', 2: 'other'}.get(p1[0]), rc, SAME.get(v, '?'),
                                                                                         ': f64::total_cmp orders -0.0 below 0.0 and NaN above everything, IEEE comparison does not' if 'total_cmp' in rc else ''))
    epv = F.Prov(eqb)
    for bi, t in eqb.calls():
        if len(t['args']) != 2 or (F.norm_callee(t) or '').startswith('cel_interpreter::objects::cmp_'):
            continue
        p0, p1 = payload(epv.of_operand(t['args'][0])), payload(epv.of_operand(t['args'][1]))
        if not p0 or not p1 or p0[1] != p1[1]:
            continue
        n6 += 1
        nc = F.norm_callee(t) or ''
        rep.check(nc == 'std::cmp::PartialEq::eq' and {p0[0], p1[0]} == {1, 2}, 'R6', 'eq/same-kind/%s' % p0[1], F.loc_of(t['span']), '%s payloads compared by PartialEq::eq' % p0[1],
                  '(%s, %s) arm of eq compares its payloads with %s, expected PartialEq::eq' % (p0[1], p0[1], nc))
    for body in (eqb, pcb):
        for bi, t in body.calls():
            nc = F.norm_callee(t) or ''
            if re.match(r'^core::f64::<impl f64>::(to_bits|total_cmp|to_ne_bytes|to_le_bytes|to_be_bytes)$', nc):
                rep.violation('R6', 'bitwise-float/%s/%s' % ('eq' if body is eqb else 'partial_cmp', nc.rsplit('::', 1)[-1]), F.loc_of(t['span']),
                              '%s compares doubles by representation: -0.0 and 0.0 become different (and NaN equal to itself), unlike IEEE ==, < used by CEL' % nc)
    rep.floor('R6', 12)
    # ---------------- R7 container equality is structural
    rep.rule('R7', 'equality of maps and keys is the compiler-derived structural equality (entries equal <=> maps equal); Value::eq delegates to it')
    kb = [x for x in fx.bodies.values() if x.path == '<cel_interpreter::objects::Key as std::cmp::PartialEq>::eq']
    rep.check(len(kb) == 1 and kb[0].is_derived(), 'R7', 'derived-eq/Key', kb[0].loc() if kb else '-', '#[derive(PartialEq)]', 'PartialEq for Key is hand-written: keys must be equal exactly when kind and payload are')
    mb = [x for x in fx.bodies.values() if x.path == '<cel_interpreter::objects::Map as std::cmp::PartialEq>::eq']
    if len(mb) != 1:
        raise F.Lost('PartialEq for Map not found')
    mb = mb[0]
    mpv = F.Prov(mb)
    mcalls = [(F.norm_callee(t), F.resolved_callee(t) or '', [sorted(F.term_str(x) for x in mpv.of_operand(a)) for a in t['args']]) for bi, t in mb.calls()]
    structural = [c for c in mcalls if c[0] == 'std::cmp::PartialEq::eq' and re.search(r'HashMap', c[1] + ' '.join(str(x) for x in c[2])) or c[0] == 'std::cmp::PartialEq::eq']
    others = [c for c in mcalls if c[0] not in ('std::cmp::PartialEq::eq', 'std::ops::Deref::deref', 'std::convert::AsRef::as_ref')]
    okm = mb.is_derived() or (len(structural) == 1 and not others and all(set(a) <= {'arg1.map', 'arg2.map', 'deref(arg1.map)', 'deref(arg2.map)', 'as_ref(arg1.map)', 'as_ref(arg2.map)'} for a in structural[0][2])
                              and structural[0][2][0] != structural[0][2][1])
    rep.check(okm, 'R7', 'structural-eq/Map', mb.loc(), 'derived, or HashMap == HashMap of the two payloads',
              'PartialEq for Map is neither derived nor the plain comparison of the two HashMaps (%s): equality of maps must be "same keys (by Key equality), equal values" and symmetric; a lookup-based comparison (Map::get falls back between int and uint keys) is neither' % [c[0] for c in mcalls][:6])
    # ---------------- R8 no identity shortcut around NaN
    rep.rule('R8', 'containers that can hold a double are compared element by element, never through Arc\'s PartialEq (which returns true for one and the same allocation when T: Eq, so [NaN] == itself)')
    n8 = 0
    for body in (eqb, mb):
        for bi, t in body.calls():
            if F.norm_callee(t) != 'std::cmp::PartialEq::eq':
                continue
            n8 += 1
            ty = (t['callee'].get('args') or [t['arg_tys'][0]])[0].lstrip('&')
            if ty.startswith('std::sync::Arc<') and 'objects::Value' in ty:
                rep.violation('R8', 'arc-identity-shortcut/%s/%s' % ('Value' if body is eqb else 'Map', 'Vec' if 'Vec<' in ty else ('HashMap' if 'HashMap' in ty else 'other')), F.loc_of(t['span']),
                              '%s is compared with Arc\'s PartialEq: Value implements Eq, so Arc::eq answers true for the same allocation without looking inside, and a list or map holding NaN equals itself ([[0.0/0.0]].all(x, x == x) is true although [0.0/0.0] == [0.0/0.0] is false)' % ty)
    rep.check(n8 >= 10, 'R8', 'eq-calls-scanned', eqb.loc(), '%d equality calls scanned' % n8, 'only %d equality calls scanned (anchor lost)' % n8)
    # ---------------- R4
    for fn, keep in (('max', 1), ('min', -1)):
        fb = fx.body('cel_interpreter::functions::' + fn)
        rep.analysed(fb)
        cl = [fx.bodies[c] for c in fx.children.get(fb.path, []) if fx.bodies[c].raw['kind'] == 'Closure']
        tf = [(bi, t) for bi, t in fb.calls() if F.norm_callee(t) == 'std::iter::Iterator::try_fold']
        okk = len(cl) == 1 and len(tf) == 1
        if okk:
            init = F.Prov(fb).of_operand(tf[0][1]['args'][1])
            okk = all(F.term_contains(x, lambda y: y[0] == 'call' and y[1] == 'core::slice::<impl [T]>::first') for x in init)
        rep.check(okk, 'R4', '%s/fold-from-first' % fn, fb.loc(), 'try_fold seeded with the first element', '%s is not a fold seeded with the first element' % fn)
        if len(cl) != 1:
            continue
        c = cl[0]
        rep.analysed(c)
        cpv = F.Prov(c)
        pcs = [(bi, t) for bi, t in c.calls() if F.norm_callee(t) == 'std::cmp::PartialOrd::partial_cmp']
        okk = len(pcs) == 1 and all(x == ('param', 2) for x in cpv.of_operand(pcs[0][1]['args'][0])) and all(x == ('param', 3) for x in cpv.of_operand(pcs[0][1]['args'][1]))
        rep.check(okk, 'R4', '%s/partial_cmp(acc,x)' % fn, c.loc(), 'acc.partial_cmp(x)', 'fold closure does not compare (acc, x)')
        sw = None
        for bi in sorted(c.live_blocks()):
            st = c.blocks[bi]['term']
            if st['k'] == 'SwitchInt' and st['dty'] == 'i8':
                sw = st
        if sw is None:
            rep.violation('R4', '%s/ordering-switch' % fn, c.loc(), 'no switch on the Ordering found (fail closed)')
            continue
        def target(v):
            for val, tg in sw['arms']:
                iv = int(val)
                if iv > 127:
                    iv -= 256
                if iv == v:
                    return tg
            return sw['otherwise']
        def ret_of(blk):
            for _ in range(5):
                for s in c.blocks[blk]['stmts']:
                    if s['k'] == 'Assign' and s['place']['l'] == 0 and not s['place']['p']:
                        return cpv.of_rvalue(s['rv'], cpv.depth, ())
                su = c.succ(blk)
                if len(su) != 1:
                    return set()
                blk = su[0]
            return set()
        for v, name in ((-1, 'Less'), (0, 'Equal'), (1, 'Greater')):
            want = 2 if v == keep else 3
            ts = ret_of(target(v))
            okk = bool(ts) and all(x[0] == 'agg' and x[1].endswith('Result::Ok') and x[2] == (('param', want),) for x in ts)
            rep.check(okk, 'R4', '%s/%s->%s' % (fn, name, 'acc' if want == 2 else 'x'), c.loc(), 'on %s keep %s' % (name, 'the accumulator' if want == 2 else 'the element'),
                      '%s: on Ordering::%s the fold returns %s, expected %s' % (fn, name, sorted(F.term_str(x) for x in ts), 'acc' if want == 2 else 'x'))
        errs = [s for _, _, s in c.stmts() if s['k'] == 'Assign' and s['rv']['k'] == 'Aggregate' and s['rv'].get('variant') == 'ValuesNotComparable']
        rep.check(len(errs) == 1, 'R4', '%s/None->ValuesNotComparable' % fn, c.loc(), 'incomparable elements are an error', 'None is not reported as ValuesNotComparable')
    rep.floor('R1', 15)
    rep.floor('R2', 20)
    rep.floor('R4', 6)


def fixtures(ffx, rep):
    col = Collector()
    for b in ffx.bodies.values():
        if b.path.startswith('verif_fixtures::c09::'):
            for bi, j, s in b.stmts():
                if s['k'] == 'Assign' and s['rv']['k'] == 'Cast' and s['rv']['kind'] == 'IntToFloat' and s['rv']['from'] in ('i64', 'u64') and s['rv']['op']['k'] != 'Const':
                    col.violation('R3', 'lossy-cast/%s' % b.path, '-', '')
            check_float_to_int_casts(b, col, 'R3')
            check_int_to_int_casts(b, col, 'R3')
    expect_fixture_hits(rep, col, {'R3': ['lossy-cast/verif_fixtures::c09::lossy_eq', 'unguarded-cast/verif_fixtures::c09::bad_cmp', 'unguarded-int-cast/verif_fixtures::c09::wrapping_eq',
                                          'unguarded-int-cast/verif_fixtures::c09::closed_bound_eq']})
    silent = [k for k in col.bad.get('R3', []) if '::good_' in k]
    rep.check(not silent, 'fixture', 'R3/silent-on-guarded-twins', 'fixtures/', 'guarded twins accepted', 'a correctly guarded cast is rejected: %s' % silent)
