"""Panic-edge analysis (analysis B): every MIR construct through which repository code can
panic is an obligation, discharged by an automatic guard rule or by a reviewed ledger entry."""
import json, os, re
from . import facts as F
from .intervals import mandatory_edges

HERE = os.path.dirname(os.path.dirname(os.path.abspath(__file__)))

# ---- external APIs documented to panic (deny-list), matched on the generic-free callee
PANIC_CALLS = [
    (r'^core::panicking::(panic|panic_fmt|panic_explicit|panic_display|panic_str|unreachable_display|panic_nounwind|assert_failed|panic_const::.*)$', 'panic!/unreachable!/todo!/assert!'),
    (r'^std::rt::(begin_panic|panic_fmt)$', 'panic!'),
    (r'^std::option::Option::(unwrap|expect)$', 'Option::unwrap/expect on None'),
    (r'^std::result::Result::(unwrap|expect|unwrap_err|expect_err)$', 'Result::unwrap/expect on the other variant'),
    (r'^std::ops::(Index::index|IndexMut::index_mut)$', 'indexing out of bounds / missing key'),
    (r'^core::slice::<impl \[T\]>::(windows|chunks|chunks_exact|chunks_mut|rchunks|split_at|split_at_mut|copy_from_slice|clone_from_slice|swap|rotate_left|rotate_right|copy_within|select_nth_unstable|last_chunk|first_chunk)$', 'slice method with a documented panic'),
    (r'^std::vec::Vec::(remove|insert|swap_remove|drain|split_off|splice|extend_from_within)$', 'Vec method with a documented panic'),
    (r'^std::string::String::(truncate|remove|insert|insert_str|drain|split_off|replace_range)$', 'String method with a documented panic'),
    (r'^core::str::<impl str>::(split_at|split_at_mut)$', 'str::split_at off a char boundary'),
    (r'^std::cell::RefCell::(borrow|borrow_mut)$', 'RefCell already borrowed'),
    (r'^core::num::<impl [iu](8|16|32|64|128|size)>::(abs|pow|div_euclid|rem_euclid|next_power_of_two|isqrt|ilog|ilog2|ilog10|div_ceil|next_multiple_of|strict_\w+)$', 'integer method that panics on overflow / zero'),
    (r'^core::num::<impl [iu](8|16|32|64|128|size)>::from_str_radix$', 'from_str_radix panics if radix is outside 2..=36'),
    (r'^std::char::(from_digit)$|^core::char::methods::<impl char>::(from_digit|to_digit|is_digit)$', 'radix above 36 panics'),
    (r'^chrono::(TimeDelta|Duration)::(seconds|milliseconds|minutes|hours|days|weeks|new)$', 'chrono TimeDelta constructor panics when out of range'),
    (r'^chrono::(NaiveDate|NaiveTime|NaiveDateTime)::(from_\w+)$', 'chrono naive constructor panics on invalid input (non-_opt forms)'),
    (r'^chrono::DateTime::(from_utc|from_local|naive_local|date|date_naive)$', 'chrono DateTime method that can panic at the range limits'),
    (r'^chrono::TimeZone::(timestamp|ymd|yo|isoywd|timestamp_millis|timestamp_nanos|from_local_datetime)$', 'chrono TimeZone constructor that panics'),
    (r'^std::iter::Iterator::step_by$', 'step_by(0) panics'),
    (r'^std::process::(exit|abort)$', 'process exit/abort'),
    (r'^std::thread::', 'thread API'),
    (r'^std::sync::(Mutex|RwLock)::', 'lock poisoning unwrap site'),
    (r'^std::collections::(BTreeMap|HashMap)::(\w+)$', None),     # not panicking; placeholder so nothing matches
]
PANIC_CALLS = [(re.compile(rx), why) for rx, why in PANIC_CALLS if why]
CHRONO_OP = re.compile(r'^<(&?chrono::[\w:]+)(<.*>)? as std::ops::(Add|Sub|Mul|Div|AddAssign|SubAssign)>::')
DEBUG_ONLY_ASSERTS = ('MisalignedPointerDereference', 'NullPointerDereference')


def short_fn(p):
    p = F.norm_path(p)
    return p.split('::', 1)[1] if p.startswith(('cel_interpreter::', 'cel_parser::')) else p


def terms_of(pv, o):
    return sorted(F.term_str(x) for x in pv.of_operand(o))


def operand_type(b, o):
    if o['k'] == 'Const':
        return o.get('ty', '?')
    pl = o['place']
    flds = [e for e in pl['p'] if e['k'] == 'Field']
    if flds and pl['p'][-1]['k'] == 'Field':
        return pl['p'][-1].get('ty', '?')
    if not pl['p']:
        return b.locals[pl['l']]['ty']
    return '?'


def const_eval(b, o, depth=0):
    """integer value of an operand when it is a compile-time constant expression"""
    if o['k'] == 'Const':
        v = o.get('val')
        return v if isinstance(v, int) and not isinstance(v, bool) else None
    if depth > 6:
        return None
    pl = o['place']
    l = pl['l']
    ds = b.defs().get(l, [])
    if len(ds) != 1 or ds[0][1] == 'term' or ds[0][2]['place']['p'] or (1 <= l <= b.argc):
        return None
    rv = ds[0][2]['rv']
    fld = [e for e in pl['p'] if e['k'] == 'Field']
    if rv['k'] == 'BinaryOp' and rv['op'] in ('MulWithOverflow', 'AddWithOverflow', 'SubWithOverflow', 'Mul', 'Add', 'Sub'):
        a, c = const_eval(b, rv['l'], depth + 1), const_eval(b, rv['r'], depth + 1)
        if a is None or c is None:
            return None
        if rv['op'].endswith('WithOverflow') and not (len(fld) == 1 and fld[0]['i'] == 0):
            return None
        return {'M': a * c, 'A': a + c, 'S': a - c}[rv['op'][0]]
    if rv['k'] == 'Use' and not pl['p']:
        return const_eval(b, rv['op'], depth + 1)
    return None


def operand_summary(b, pv, o):
    c = const_eval(b, o)
    if c is not None:
        return str(c)
    return 'var:' + re.sub(r'(\w+::)+', '', operand_type(b, o))[:40]


def stable_terms(pv, o):
    """provenance rendering without unstable parts (cut at loops / unknowns)"""
    ts = [x for x in pv.of_operand(o)]
    if any(F.term_contains(x, lambda y: y == ('top',) or y[0] in ('undef', 'stored')) for x in ts) or len(ts) > 2:
        return 'var'
    return ','.join(sorted(F.term_str(x) for x in ts))[:90]


def strip_blocks(ts):
    """provenance strings are already position-free"""
    return ts


class Edge:
    def __init__(self, b, block, kind, detail, loc, why, term=None):
        self.b, self.block, self.kind, self.detail, self.loc, self.why, self.term = b, block, kind, detail, loc, why, term
        self.fn = short_fn(b.path)
        self.discharged = None      # (rule, explanation)

    def key(self):
        return '%s|%s|%s' % (self.fn, self.kind, self.detail)


def collect_body(b):
    """all panic edges of one body (undischarged)"""
    out = []
    pv = F.Prov(b)
    for bi, t in b.terms('Assert'):
        m = t['msg']
        if m in DEBUG_ONLY_ASSERTS:
            continue
        ops = [operand_summary(b, pv, o) for o in t['ops']]
        out.append(Edge(b, bi, 'assert', '%s(%s)' % (m, ' ; '.join(ops)), F.loc_of(t['span']), 'arithmetic/bounds check', t))
    for bi, t in b.calls():
        n = F.norm_callee(t) or ''
        rc = F.resolved_callee(t) or ''
        why = None
        for rx, w in PANIC_CALLS:
            if rx.match(n):
                why = w
                break
        if why is None and CHRONO_OP.match(rc):
            ga = (t.get('callee') or {}).get('args', [])
            if rc.endswith('::sub') and len(ga) >= 2 and ga[0].startswith('chrono::DateTime<') and ga[1].startswith('chrono::DateTime<'):
                why = None       # instant difference never overflows
            else:
                why = 'chrono operator panics on overflow'
                n = F.norm_path(rc)
        if why is None:
            continue
        det = n.replace('core::panicking::', '')
        if n.startswith('core::panicking::'):
            msg = ''
            for a in t['args']:
                for x in pv.of_operand(a):
                    if x[0] == 'const' and isinstance(x[1], str):
                        msg = x[1]
                    elif x[0] == 'call' and 'Arguments' in str(x[1]):
                        for y in x[2]:
                            if y[0] == 'const' and isinstance(y[1], str):
                                msg = y[1]
            det = 'panic(%s)' % msg[:70]
        elif n in ('std::ops::Index::index', 'std::ops::IndexMut::index_mut'):
            base = stable_terms(pv, t['args'][0])
            idx = stable_terms(pv, t['args'][1])
            bty = re.sub(r"&(mut )?|'\w+ ", '', t['arg_tys'][0])
            ity = re.sub(r'<.*', '', t['arg_tys'][1]).rsplit('::', 1)[-1]
            det = 'index %s [%s:%s] on %s' % (base, idx, ity, re.sub(r'<.*', '', bty).rsplit('::', 1)[-1] if not bty.startswith('[') else bty)
        else:
            recv = stable_terms(pv, t['args'][0]) if t['args'] else ''
            det = '%s(%s)' % (n.rsplit('::', 1)[-1] if not n.startswith('<') else n, recv)
            if n.startswith('std::option::Option::') or n.startswith('std::result::Result::'):
                det = '%s::%s(%s)' % (n.split('::')[2], n.rsplit('::', 1)[-1], recv)
        out.append(Edge(b, bi, 'call', det, F.loc_of(t['span']), why, t))
    return out, pv


# ---------------------------------------------------------------- automatic guard rules

def const_int(o):
    v = F.op_const(o)
    return v if isinstance(v, int) and not isinstance(v, bool) else None


def len_facts(b, pv, block):
    """facts 'len(X) op n' that hold on entry to block: list of (Xterm-string set, op, n)"""
    out = []
    for s, l, taken in mandatory_edges(b, block):
        for term in pv.of_local(l):
            truth = None
            if taken == ('eq', 1) or taken == ('not-in', [0]):
                truth = True
            elif taken == ('eq', 0) or taken == ('not-in', [1]):
                truth = False
            if truth is None:
                continue
            t = term
            while t[0] == 'unop' and t[1] == 'Not':
                t = t[2]
                truth = not truth
            if t[0] == 'call' and t[1] in ('core::slice::<impl [T]>::is_empty', 'std::vec::Vec::is_empty', 'core::str::<impl str>::is_empty', 'std::string::String::is_empty') and not truth:
                out.append((F.term_str(t[2][0]), 'Ge', 1))
            if t[0] == 'binop' and t[1] in ('Eq', 'Ne', 'Lt', 'Le', 'Gt', 'Ge'):
                a, c = t[2], t[3]
                op = t[1]
                if c[0] in ('call', 'len') and a[0] == 'const':
                    a, c = c, a
                    op = {'Lt': 'Gt', 'Le': 'Ge', 'Gt': 'Lt', 'Ge': 'Le'}.get(op, op)
                if c[0] == 'const' and isinstance(c[1], int):
                    base = None
                    if a[0] == 'call' and a[1] in ('std::vec::Vec::len', 'core::slice::<impl [T]>::len', 'std::string::String::len', 'core::str::<impl str>::len'):
                        base = F.term_str(a[2][0])
                    elif a[0] == 'len':
                        base = F.term_str(a[1])
                    if base is not None:
                        if not truth:
                            op = {'Eq': 'Ne', 'Ne': 'Eq', 'Lt': 'Ge', 'Le': 'Gt', 'Gt': 'Le', 'Ge': 'Lt'}[op]
                        out.append((base, op, c[1]))
    return out


def index_facts(b, pv, block):
    """facts 'I < len(X)' (as term strings) that hold on entry to block"""
    out = []
    for s, l, taken in mandatory_edges(b, block):
        if taken == ('eq', 1) or taken == ('not-in', [0]):
            truth = True
        elif taken == ('eq', 0) or taken == ('not-in', [1]):
            truth = False
        else:
            continue
        for term in pv.of_local(l):
            t = term
            tr = truth
            while t[0] == 'unop' and t[1] == 'Not':
                t = t[2]
                tr = not tr
            if t[0] != 'binop' or t[1] not in ('Lt', 'Le', 'Gt', 'Ge'):
                continue
            a, c, op = t[2], t[3], t[1]
            def is_len(x):
                return (x[0] == 'call' and x[1] in ('std::vec::Vec::len', 'core::slice::<impl [T]>::len')) or x[0] == 'len'
            if is_len(a) and not is_len(c):
                a, c = c, a
                op = {'Lt': 'Gt', 'Le': 'Ge', 'Gt': 'Lt', 'Ge': 'Le'}[op]
            if not is_len(c):
                continue
            if not tr:
                op = {'Lt': 'Ge', 'Le': 'Gt', 'Gt': 'Le', 'Ge': 'Lt'}[op]
            base = F.term_str(c[2][0]) if c[0] == 'call' else F.term_str(c[1])
            if op == 'Lt':
                out.append((F.term_str(a), 'Lt', base))
    return out


def min_len(facts, base):
    m = 0
    for bs, op, n in facts:
        if bs != base:
            continue
        if op == 'Eq':
            m = max(m, n)
        elif op == 'Gt':
            m = max(m, n + 1)
        elif op == 'Ge':
            m = max(m, n)
    return m


def auto_discharge(e, pv):
    b, t = e.b, e.term
    if e.kind == 'call':
        n = F.norm_callee(t) or ''
        if n in ('std::result::Result::unwrap', 'std::result::Result::expect'):
            ga = (t.get('callee') or {}).get('args', [])
            if len(ga) >= 2 and ga[1] == 'std::convert::Infallible':
                return ('infallible', 'Result<_, Infallible> cannot be Err (type-level)')
        if n in ('std::ops::Index::index', 'std::ops::IndexMut::index_mut') and len(t['args']) == 2:
            k = None
            ks = pv.of_operand(t['args'][1])
            if len(ks) == 1:
                kk = next(iter(ks))
                if kk[0] == 'const' and isinstance(kk[1], int):
                    k = kk[1]
            if k is not None and re.search(r'(Vec<|\[)', t['arg_tys'][0]):
                bases = {F.term_str(x) for x in pv.of_operand(t['args'][0])}
                facts = len_facts(b, pv, e.block)
                if len(bases) == 1 and min_len(facts, next(iter(bases))) > k:
                    return ('len-guard', 'index %d dominated by a length test establishing len >= %d' % (k, min_len(facts, next(iter(bases)))))
        if re.match(r'^core::num::<impl [iu](8|16|32|64|128|size)>::from_str_radix$', n) and len(t['args']) == 2:
            c = const_eval(b, t['args'][1])
            if c is not None and 2 <= c <= 36:
                return ('const-radix', 'radix is the constant %d' % c)
        if n in ('std::string::String::insert', 'std::string::String::insert_str') and len(t['args']) == 3:
            c = const_eval(b, t['args'][1])
            if c == 0:
                return ('const-index-0', 'insertion at byte offset 0, which is in range and a char boundary for every string')
        if n in ('std::ops::Index::index', 'std::ops::IndexMut::index_mut') and len(t['args']) == 2 and re.search(r'(Vec<|\[)', t['arg_tys'][0]):
            its = {F.term_str(x) for x in pv.of_operand(t['args'][1])}
            bases = {F.term_str(x) for x in pv.of_operand(t['args'][0])}
            if len(its) == 1 and len(bases) == 1:
                it, base = next(iter(its)), next(iter(bases))
                for (ib, op, lb) in index_facts(b, pv, e.block):
                    if ib == it and lb == base and op == 'Lt':
                        return ('index-guard', 'index dominated by the test `%s < len(%s)`' % (it[:40], base[:40]))
        if n in ('core::slice::<impl [T]>::windows', 'core::slice::<impl [T]>::chunks', 'core::slice::<impl [T]>::chunks_exact') and len(t['args']) == 2:
            c = const_eval(b, t['args'][1])
            if c is not None and c > 0:
                return ('nonzero-size', 'window/chunk size is the constant %d' % c)
            bases = set()
            for x in pv.of_operand(t['args'][1]):
                if x[0] == 'call' and x[1] in ('core::slice::<impl [T]>::len', 'std::vec::Vec::len'):
                    bases.add(F.term_str(x[2][0]))
                elif x[0] == 'len':
                    bases.add(F.term_str(x[1]))
                else:
                    bases.add(None)
            facts = len_facts(b, pv, e.block)
            if len(bases) == 1 and None not in bases and min_len(facts, next(iter(bases))) >= 1:
                return ('nonzero-size', 'window size is len(x) on a path where x is known to be non-empty')
    if e.kind == 'assert':
        m = t['msg']
        ops = t['ops']
        if m.startswith('Overflow(') and all(const_eval(b, o) is not None for o in ops):
            vals = [const_eval(b, o) for o in ops]
            ty = operand_type(b, ops[0])
            rng = {'i64': (-2 ** 63, 2 ** 63 - 1), 'u64': (0, 2 ** 64 - 1), 'usize': (0, 2 ** 64 - 1), 'i32': (-2 ** 31, 2 ** 31 - 1), 'u32': (0, 2 ** 32 - 1), 'u128': (0, 2 ** 128 - 1), 'i128': (-2 ** 127, 2 ** 127 - 1), 'u8': (0, 255)}.get(ty)
            r = {'Overflow(Mul)': lambda a, c: a * c, 'Overflow(Add)': lambda a, c: a + c, 'Overflow(Sub)': lambda a, c: a - c}.get(m)
            if rng and r and len(vals) == 2 and rng[0] <= r(*vals) <= rng[1]:
                return ('const-arith', 'constant operands %s: result %d fits %s' % (vals, r(*vals), ty))
        if m.startswith('Overflow(Add)') and len(ops) == 2 and const_int(ops[1]) == 1:
            ty = operand_type(b, ops[0])
            derived_by_cast = any(F.term_contains(x, lambda y: y[0] == 'cast') for x in pv.of_operand(ops[0]))
            if ty in ('usize', 'u64') and not derived_by_cast:
                return ('usize-counter', '%s counter + 1 (not derived from a cast) cannot overflow before memory/time is exhausted' % ty)
        if m in ('DivisionByZero', 'RemainderByZero'):
            # the assert operand is the dividend; the divisor is the left operand of the `== 0` test feeding the condition
            cl = F.op_local(t['cond'])
            ds = b.defs().get(cl, []) if cl is not None else []
            if len(ds) == 1 and ds[0][1] != 'term' and ds[0][2]['rv']['k'] == 'BinaryOp' and ds[0][2]['rv']['op'] == 'Eq':
                rv = ds[0][2]['rv']
                c = const_eval(b, rv['l'])
                z = const_eval(b, rv['r'])
                if c is not None and z == 0 and c != 0:
                    return ('const-divisor', 'divisor is the non-zero constant %d' % c)
        if m in ('Overflow(Div)', 'Overflow(Rem)') and len(ops) == 2:
            c = const_int(ops[1])
            if c is not None and c not in (0, -1):
                return ('const-divisor', 'divisor is the constant %d (not -1)' % c)
        if m == 'BoundsCheck' and len(ops) == 2:
            ln, ix = const_int(ops[0]), const_int(ops[1])
            if ln is not None and ix is not None and 0 <= ix < ln:
                return ('const-bounds', 'constant index %d into an array of %d' % (ix, ln))
    return None


# ---------------------------------------------------------------- ledger

def load_ledger():
    p = os.path.join(HERE, 'tables/panic_ledger.json')
    if not os.path.exists(p):
        return {}
    d = json.load(open(p))
    return {e['key']: e for e in d['entries']}


def audit(fx, rep, rule, bodies, ledger, family):
    """records one obligation per panic edge of the given bodies.
    Edges are matched to ledger entries by exact key; an edge whose (kind, detail) matches an
    otherwise unmatched ledger entry of the same family in another function is treated as moved."""
    edges = []
    for b in bodies:
        es, pv = collect_body(b)
        rep.analysed(b, calls=sum(1 for _ in b.calls()))
        for e in es:
            e.discharged = auto_discharge(e, pv)
            edges.append(e)
    used = set()
    pending = []
    counts = {}
    for e in edges:
        k = e.key()
        counts[k] = counts.get(k, 0) + 1
        if e.discharged:
            rep.ok(rule, 'auto/%s/%s#%d' % (e.discharged[0], k, counts[k]), e.loc, e.discharged[1])
            continue
        ent = ledger.get(k)
        if ent and ent.get('family') == family:
            used.add(k)
            if ent['class'] == 'benign':
                rep.ok(rule, 'ledger/%s#%d' % (k, counts[k]), e.loc, ent['reason'])
            else:
                rep.violation(rule, 'edge/%s' % k, e.loc, '%s: %s' % (e.why, ent['reason']))
            maxn = ent.get('count')
            if maxn is not None and counts[k] > maxn:
                rep.violation(rule, 'edge/%s/extra#%d' % (k, counts[k]), e.loc, 'a further panic edge of an audited kind appeared in %s (%d audited, this is #%d): %s' % (e.fn, maxn, counts[k], e.why))
        else:
            pending.append(e)
    # move tolerance: an audited edge that left its function (helper extracted, code moved) is recognised by
    # kind + detail among the ledger entries of the same family that still have unused audited occurrences
    remaining = {}
    for k, v in ledger.items():
        if v.get('family') != family or v['class'] != 'benign':
            continue
        rem = v.get('count', 1) - counts.get(k, 0)
        if rem > 0:
            remaining[k] = rem
    for e in pending:
        moved = None
        for k in remaining:
            kf, kk, kd = k.split('|', 2)
            if kk == e.kind and kd == e.detail and remaining[k] > 0:
                moved = k
                break
        if moved:
            remaining[moved] -= 1
            rep.ok(rule, 'moved/%s' % e.key(), e.loc, 'audited edge moved from %s: %s' % (moved.split('|')[0], ledger[moved]['reason']))
            rep.note('panic edge %s moved from %s' % (e.key(), moved.split('|')[0]))
        else:
            rep.violation(rule, 'edge/%s' % e.key(), e.loc, 'unaudited panic edge in %s: %s (%s)' % (e.fn, e.detail, e.why))
    return edges
