"""C08 — 64-bit integer arithmetic is exact or reports overflow.

Operator whitelist + sibling table over `impl Add/Sub/Mul/Div/Rem for Value` and
the unary-minus arm.  With std's documented `checked_*` contract (exact result
or None) the rules imply the clause outright."""
import re
from . import facts as F
from .report import Collector, expect_fixture_hits

LEVEL = 'other'
TRUSTED = ['rustc nightly (MIR construction, callee resolution)', "std's checked_add/sub/mul/div/rem/neg contract: exact result or None"]
EXPLANATION = ('R1: in the five arithmetic impls of Value and in the evaluator no MIR integer Add/Sub/Mul/Div/Rem/Shl/Shr/Neg on i64/u64 payloads and no integer '
               'method other than checked_*; R2: for each (trait, Int|UInt) the checked_<op> call takes self\'s payload as receiver and rhs\'s payload as argument, '
               'and its result reaches the return value only through Some->Value::<same kind> / None->Err wrappers with the error class of the table; '
               'R3: Int Div/Rem test the divisor for zero before the checked call (so MIN % -1 is overflow, not zero-division); R4: no numeric cast in the impls and '
               'no own match arm for a mixed Int/UInt/Float pair. Decides the structural clause only; exactness of the products is std\'s contract.')
ASSUMPTIONS = ['f64 arithmetic is IEEE-754 by construction (MIR float BinaryOp) and is not examined further',
               'the law (a/b)*b + a%b == a follows from std checked_div/checked_rem semantics and is not re-derived']

TRAITS = {'std::ops::Add': 'add', 'std::ops::Sub': 'sub', 'std::ops::Mul': 'mul', 'std::ops::Div': 'div', 'std::ops::Rem': 'rem'}
KINDS = {'Int': 'i64', 'UInt': 'u64'}
INT_TYS = {'i8', 'i16', 'i32', 'i64', 'i128', 'isize', 'u8', 'u16', 'u32', 'u64', 'u128', 'usize'}
ARITH_OPS = re.compile(r'^(Add|Sub|Mul|Div|Rem|Shl|Shr)(WithOverflow|Unchecked)?$')
# None of a checked op must become this error variant
NONE_ERR = {
    ('add', 'Int'): 'IntegerOverflow', ('add', 'UInt'): 'IntegerOverflow',
    ('sub', 'Int'): 'IntegerOverflow', ('sub', 'UInt'): 'IntegerOverflow',
    ('mul', 'Int'): 'IntegerOverflow', ('mul', 'UInt'): 'IntegerOverflow',
    ('div', 'Int'): 'IntegerOverflow', ('div', 'UInt'): 'DivisionByZero',
    ('rem', 'Int'): 'IntegerOverflow', ('rem', 'UInt'): 'RemainderByZero',
}
ZERO_ERR = {'div': 'DivisionByZero', 'rem': 'RemainderByZero'}
OK_WRAPPERS = {'std::option::Option::ok_or', 'std::option::Option::ok_or_else', 'std::result::Result::map', 'std::option::Option::map'}
NUMERIC = ('Int', 'UInt', 'Float')


def payload_of(term, param, variant):
    """term is the payload of variant `variant` of parameter `param`"""
    return (term[0] == 'f' and term[1][0] == 'dc' and term[1][2] == variant and term[1][1] == ('param', param))


def int_method(n):
    m = re.match(r'^core::num::<impl ([iu]\d+|[iu]size)>::(\w+)$', n or '')
    return (m.group(1), m.group(2)) if m else None


def arith_sites(b):
    """MIR integer arithmetic statements in one body -> (loc, op, ty)"""
    for bi, j, s in b.stmts():
        if s['k'] != 'Assign':
            continue
        rv = s['rv']
        if rv['k'] == 'BinaryOp' and ARITH_OPS.match(rv['op']) and rv['lty'] in INT_TYS:
            yield F.loc_of(s['span']), rv['op'], rv['lty'], rv
        if rv['k'] == 'UnaryOp' and rv['op'] == 'Neg' and rv['aty'] in INT_TYS:
            yield F.loc_of(s['span']), 'Neg', rv['aty'], rv


def find_impl_body(fx, trait, value_ty):
    for b in fx.bodies.values():
        if b.raw.get('impl_trait') == trait and b.raw.get('impl_self') == value_ty and b.raw['kind'] == 'AssocFn':
            return b
    raise F.Lost('anchor lost: impl %s for %s' % (trait, value_ty))


def variant_names(fx, value_ty):
    return {v['idx']: v['name'] for v in fx.adt(value_ty)['variants']}


def decision_pairs(b, vnames):
    """(variantA, variantB) pairs that have an own arm in `match (self, rhs)`; scrutinees are
    identified by provenance (discriminant of parameter 1 / parameter 2)"""
    pv = F.Prov(b)
    pairs = {}

    def which(t):
        if t['k'] != 'SwitchInt':
            return None
        ts = pv.of_operand(t['discr'])
        if len(ts) == 1:
            x = next(iter(ts))
            if x[0] == 'discr' and x[1][0] == 'param':
                return x[1][1] - 1
        return None
    first = None
    for bi in sorted(b.live_blocks()):
        t = b.blocks[bi]['term']
        if which(t) == 0:
            first = (bi, t)
            break
    if not first:
        raise F.Lost('unrecognised match shape in %s' % b.path)
    for v0, tgt in first[1]['arms']:
        t = b.blocks[tgt]['term']
        if which(t) == 1:
            for v1, tgt2 in t['arms']:
                if tgt2 != t['otherwise']:
                    pairs[(vnames[int(v0)], vnames[int(v1)])] = tgt2
        else:
            pairs[(vnames[int(v0)], '*')] = tgt
    return pairs


def wrappers_to(term, pred, path=()):
    """all wrapper chains from the root of `term` down to a subterm satisfying pred"""
    if pred(term):
        yield path, term
        return
    if not isinstance(term, tuple):
        return
    if term[0] == 'call':
        for a in term[2]:
            yield from wrappers_to(a, pred, path + (term,))
    elif term[0] == 'agg':
        for a in term[2]:
            yield from wrappers_to(a, pred, path + (term,))
    elif term[0] in ('f', 'dc', 'ix', 'iter', 'cast', 'unop', 'stored', 'discr', 'len'):
        yield from wrappers_to(term[-1] if term[0] in ('cast', 'unop') else term[1], pred, path + (term,))
    elif term[0] == 'binop':
        yield from wrappers_to(term[2], pred, path + (term,))
        yield from wrappers_to(term[3], pred, path + (term,))


def check_result_flow(rep, rule, key, loc, b, pv, opname, kind, value_ty, checked_name, unary=False):
    """the result of the checked call reaches the return value only via Some->Value::kind, None->Err(expected)"""
    rets = [t for _, ts in pv.per_def(0) for t in ts]
    found = False
    for rt in rets:
        for path, call in wrappers_to(rt, lambda x: isinstance(x, tuple) and x[0] == 'call' and x[1] == checked_name):
            found = True
            ctor_ok = False
            err_ok = None
            bad = None
            for w in path:
                if w[0] == 'call':
                    if w[1] not in OK_WRAPPERS:
                        bad = 'result passes through %s' % w[1]
                    if w[1] in ('std::result::Result::map', 'std::option::Option::map'):
                        f = w[2][1] if len(w[2]) > 1 else None
                        if f == ('const', ('fn', '%s::%s' % (value_ty, kind))):
                            ctor_ok = True
                        else:
                            bad = 'mapped through %s instead of the %s constructor' % (F.term_str(f), kind)
                    if w[1] in ('std::option::Option::ok_or', 'std::option::Option::ok_or_else'):
                        e = w[2][1] if len(w[2]) > 1 else None
                        if e and e[0] == 'agg':
                            err_ok = e[1].rsplit('::', 1)[-1]
                elif w[0] == 'agg':
                    nm = w[1]
                    if nm == '%s::%s' % (value_ty, kind):
                        ctor_ok = True
                    elif nm.endswith('Result::Ok') or nm.endswith('Option::Some'):
                        pass
                    else:
                        bad = 'result wrapped in %s' % nm
                else:
                    bad = 'result transformed by %s' % w[0]
            want = 'IntegerOverflow' if unary else NONE_ERR[(opname, kind)]
            if bad:
                rep.violation(rule, key, loc, bad)
            elif not ctor_ok:
                rep.violation(rule, key, loc, 'Some payload is not wrapped in Value::%s' % kind)
            elif err_ok is not None and err_ok != want:
                rep.violation(rule, key, loc, 'None of %s maps to %s, expected %s' % (checked_name, err_ok, want))
            elif err_ok is None:
                # match-style handling: the None edge must construct the expected error somewhere in the body
                has = any(s['k'] == 'Assign' and s['rv']['k'] == 'Aggregate' and s['rv'].get('variant') == want for _, _, s in b.stmts())
                rep.check(has, rule, key, loc, 'Some->Value::%s, None->%s (match form)' % (kind, want), 'no %s error constructed for the None case' % want)
            else:
                rep.ok(rule, key, loc, 'Some->Value::%s, None->%s' % (kind, want))
    if not found:
        rep.violation(rule, key, loc, 'result of %s does not reach the return value of %s' % (checked_name, b.path))


def core(fx, rep, value_ty, evaluator, err_ty_prefix):
    rep.rule('R1', 'no MIR integer arithmetic / Neg and no non-checked integer method in the arithmetic impls and the evaluator arms')
    rep.rule('R2', 'trait<->checked_op table with operand order and Some->same-kind / None->Err result flow')
    rep.rule('R3', 'Int Div/Rem: divisor tested against 0 before the checked call, zero edge returns the zero-division error')
    rep.rule('R4', 'no numeric cast in the impls; no own arm for a mixed Int/UInt/Float pair')
    vnames = variant_names(fx, value_ty)
    for trait, opname in TRAITS.items():
        b = find_impl_body(fx, trait, value_ty)
        bodies = fx.bodies_with_closures(b.path)
        for bb in bodies:
            rep.analysed(bb, calls=sum(1 for _ in bb.calls()))
        # ---- R1
        n = 0
        for bb in bodies:
            for loc, op, ty, rv in arith_sites(bb):
                n += 1
                rep.violation('R1', '%s/%s/%s' % (opname, op, ty), loc, 'raw integer %s on %s in impl %s for Value (may wrap or panic)' % (op, ty, trait))
            for bi, t in bb.calls():
                im = int_method(F.resolved_callee(t))
                if im:
                    n += 1
                    okk = im[1] in ('checked_add', 'checked_sub', 'checked_mul', 'checked_div', 'checked_rem', 'checked_neg')
                    rep.check(okk, 'R1', '%s/%s::%s' % (opname, im[0], im[1]), F.loc_of(t['span']),
                              'checked method', 'integer method %s::%s is not a checked_* operation' % im)
        # ---- R2 / R3
        pv = F.Prov(b)
        for kind, ity in KINDS.items():
            want = 'core::num::<impl %s>::checked_%s' % (ity, opname)
            sites = [(bi, t) for bi, t in b.calls() if F.resolved_callee(t) == want]
            key = '%s/%s' % (opname, kind)
            if not sites:
                rep.violation('R2', key, b.loc(), 'no call of %s in impl %s for Value: the (%s,%s) arm does not use the checked operation of its own trait' % (want, trait, kind, kind))
                continue
            for bi, t in sites:
                loc = F.loc_of(t['span'])
                a0 = pv.of_operand(t['args'][0])
                a1 = pv.of_operand(t['args'][1])
                okk = all(payload_of(x, 1, kind) for x in a0) and all(payload_of(x, 2, kind) for x in a1)
                rep.check(okk, 'R2', key + '/operands', loc, 'receiver = self.%s payload, argument = rhs.%s payload' % (kind, kind),
                          'operands of %s are (%s ; %s), expected (self as %s, rhs as %s)' % (
                              want, ','.join(map(F.term_str, a0)), ','.join(map(F.term_str, a1)), kind, kind))
                check_result_flow(rep, 'R2', key + '/result', loc, b, pv, opname, kind, value_ty, want)
                if kind == 'Int' and opname in ZERO_ERR:
                    # R3: dominating zero test on the divisor
                    found = False
                    for sb in sorted(b.live_blocks()):
                        st = b.blocks[sb]['term']
                        if st['k'] != 'SwitchInt' or not b.dominates(sb, bi):
                            continue
                        for term in pv.of_operand(st['discr']):
                            if payload_of(term, 2, kind) and any(int(v) == 0 for v, _ in st['arms']):
                                # literal pattern `(Int(l), Int(0)) => ..`: the switch is on the divisor itself
                                zero_t = [tg for v, tg in st['arms'] if int(v) == 0][0]
                                reach_zero = b.reachable_from([zero_t])
                                errs = [s for blk in reach_zero for s in b.blocks[blk]['stmts']
                                        if s['k'] == 'Assign' and s['rv']['k'] == 'Aggregate' and s['rv'].get('variant') == ZERO_ERR[opname]]
                                found = found or (bi not in reach_zero and bool(errs))
                            if term[0] == 'binop' and term[1] in ('Eq', 'Ne'):
                                x, y = term[2], term[3]
                                if y == ('const', 0) and payload_of(x, 2, kind) or x == ('const', 0) and payload_of(y, 2, kind):
                                    zero_val = 1 if term[1] == 'Eq' else 0
                                    zero_t = [tg for v, tg in st['arms'] if int(v) == zero_val]
                                    zero_t = zero_t[0] if zero_t else st['otherwise']
                                    nz = st['otherwise'] if zero_t != st['otherwise'] else [tg for v, tg in st['arms']][0]
                                    # the checked call must be on the non-zero side only
                                    reach_zero = b.reachable_from([zero_t])
                                    errs = [s for blk in reach_zero for s in b.blocks[blk]['stmts']
                                            if s['k'] == 'Assign' and s['rv']['k'] == 'Aggregate' and s['rv'].get('variant') == ZERO_ERR[opname]]
                                    found = found or (bi not in reach_zero and bool(errs))
                    rep.check(found, 'R3', key, loc, 'divisor == 0 -> %s before checked_%s' % (ZERO_ERR[opname], opname),
                              'no dominating `divisor == 0` test returning %s before checked_%s (MIN %s -1 would be misreported or zero-division mislabelled)' % (ZERO_ERR[opname], opname, '/' if opname == 'div' else '%'))
        # ---- R4
        ncast = 0
        for bb in bodies:
            for bi, j, s in bb.stmts():
                if s['k'] == 'Assign' and s['rv']['k'] == 'Cast' and s['rv']['kind'] in ('IntToInt', 'IntToFloat', 'FloatToInt', 'FloatToFloat'):
                    ncast += 1
                    rep.violation('R4', '%s/cast/%s/%s->%s' % (opname, s['rv']['kind'], s['rv']['from'], s['rv']['to']), F.loc_of(s['span']),
                                  'numeric cast %s -> %s in impl %s for Value (coercion)' % (s['rv']['from'], s['rv']['to'], trait))
        pairs = decision_pairs(b, vnames)
        for (a, c), tgt in sorted(pairs.items()):
            if a in NUMERIC and c in NUMERIC:
                rep.check(a == c, 'R4', '%s/arm/%s,%s' % (opname, a, c), b.loc(), 'same-kind numeric arm',
                          'own arm for mixed numeric pair (%s, %s) in impl %s: mixing numeric kinds must be an error' % (a, c, trait))
            if a in NUMERIC and c == '*':
                rep.violation('R4', '%s/arm/%s,*' % (opname, a), b.loc(), 'arm for (%s, anything) in impl %s' % (a, trait))
    # ---- unary minus and other integer arithmetic in the evaluator
    ev = fx.body(evaluator)
    pv = F.Prov(ev)
    nneg = 0
    for bb in fx.bodies_with_closures(evaluator):
        rep.analysed(bb)
        for loc, op, ty, rv in arith_sites(bb):
            if ty not in ('i64', 'u64'):
                continue
            if op == 'Neg':
                nneg += 1
                rep.violation('R1', 'evaluator/Neg/%s' % ty, loc, 'unary minus uses raw `-` on %s: i64::MIN panics (debug) or wraps (release); use checked_neg' % ty)
            else:
                # arithmetic on i64/u64 whose operand is a Value payload (e.g. index arithmetic) is C02's business unless it produces a Value::Int
                pass
        for bi, t in bb.calls():
            im = int_method(F.resolved_callee(t))
            if im and im[0] in ('i64', 'u64') and im[1] in ('checked_neg', 'wrapping_neg', 'overflowing_neg', 'saturating_neg', 'unchecked_neg', 'abs', 'wrapping_abs'):
                nneg += 1
                okk = im[1] == 'checked_neg'
                rep.check(okk, 'R1', 'evaluator/%s::%s' % im, F.loc_of(t['span']), 'checked negation', 'negation by %s::%s may wrap/saturate' % im)
                if okk:
                    check_result_flow(rep, 'R2', 'neg/Int/result', F.loc_of(t['span']), bb, F.Prov(bb), 'neg', 'Int', value_ty, 'core::num::<impl i64>::checked_neg', unary=True)
            rc = F.resolved_callee(t) or ''
            if rc in ('<i64 as std::ops::Neg>::neg', '<u64 as std::ops::Neg>::neg'):
                nneg += 1
                rep.violation('R1', 'evaluator/Neg-trait/i64', F.loc_of(t['span']), 'unary minus through Neg::neg on i64')
    if nneg == 0:
        rep.violation('floor', 'R1/evaluator-negation', ev.loc(), 'anchor lost: no integer negation found in the evaluator')


RESOLVE6 = ('cel_interpreter::objects::Value::resolve', 'cel_interpreter::context::Context::resolve')


def run(fx, rep):
    from .report import producer_rules
    producer_rules(fx, rep, 'producer rule: the parser builds arithmetic and unary-minus nodes from their own children with the operator the source shows, and never folds or regroups them (C04 R3/R5/R7/R9)', [('c04', 'C04', '^(R3/visit_calc/|R3/visit_Negate/|R5/|R7/visit_(calc|Negate)/|R9/|R3/find_operator/|R3/token-literal/)')], 15)
    core(fx, rep, 'cel_interpreter::objects::Value', 'cel_interpreter::objects::Value::resolve', 'cel_interpreter::ExecutionError')
    # ---------------- R6 operand kinds of unary minus
    rep.rule('R6', 'unary minus has arms for int and double only: a uint (or anything else) is an error, not a coercion')
    from .evalmodel import EvalModel
    m6 = EvalModel(fx)
    if '-_' not in m6.arms():
        raise F.Lost('NEGATE arm not found')
    reg6 = m6.b.reachable_from([m6.arms()['-_']['entry']]) - m6.b.reachable_from([m6.arms()['-_']['miss']])
    vnames = [v['name'] for v in fx.adt('cel_interpreter::objects::Value')['variants']]
    kinds = None
    for bi in sorted(reg6):
        blk = m6.b.blocks[bi]
        t = blk['term']
        if t['k'] != 'SwitchInt':
            continue
        dl = F.op_local(t['discr'])
        for st in blk['stmts']:
            if st['k'] == 'Assign' and st['rv']['k'] == 'Discriminant' and not st['place'].get('p') and st['place']['l'] == dl:
                ts = m6.pv.of_operand({'k': 'Copy', 'place': st['rv']['place']})
                pty = m6.b.locals[st['rv']['place']['l']]['ty'] if not st['rv']['place'].get('p') else ''
                if pty == 'cel_interpreter::objects::Value' and any(F.term_contains(x, lambda y: y[0] == 'call' and y[1] in RESOLVE6) for x in ts):
                    kinds = []
                    alltg = [k for _, k in t['arms']] + [t['otherwise']]
                    for v, tg in t['arms']:
                        if int(v) >= len(vnames):
                            continue
                        own = m6.b.reachable_from([tg]) - set().union(*[m6.b.reachable_from([o]) for o in alltg if o != tg])
                        rejects = any(st['k'] == 'Assign' and st['rv']['k'] == 'Aggregate' and st['rv'].get('variant') == 'UnsupportedUnaryOperator' for e in own for st in m6.b.blocks[e]['stmts'])
                        accepts = any((st['k'] == 'Assign' and st['rv']['k'] == 'Aggregate' and (st['rv'].get('adt') or '').endswith('objects::Value')) for e in own for st in m6.b.blocks[e]['stmts']) or \
                            any(m6.b.blocks[e]['term']['k'] == 'Call' and re.search(r'::(checked_|wrapping_|saturating_)?(neg|sub|sub_unsigned|abs)$', F.norm_callee(m6.b.blocks[e]['term']) or '') for e in own)
                        if accepts or not rejects:
                            kinds.append(vnames[int(v)])
                    kinds = sorted(kinds)
        if kinds is not None:
            break
    rep.check(kinds == ['Float', 'Int'], 'R6', 'neg/operand-kinds', m6.arms()['-_']['loc'], 'arms for Int and Float, everything else UnsupportedUnaryOperator',
              'unary minus has own arms for %s, expected Int and Float only: -(5u) must be an error, not an int' % kinds)
    # ---------------- R5 every successful result comes out of an operand-pair arm
    rep.rule('R5', 'a successful arithmetic result is computed from both operands inside a same-kind arm; no operand is handed back as the result')
    for tr in ('Add', 'Sub', 'Mul', 'Div', 'Rem'):
        ab = find_impl_body(fx, 'std::ops::' + tr, 'cel_interpreter::objects::Value')
        apv = F.Prov(ab)
        bad5 = []
        nret = 0
        for _, ts in apv.per_def(0):
            for r in ts:
                if not (r[0] == 'agg' and r[1].endswith('Result::Ok')):
                    continue
                nret += 1
                inner = r[2][0] if r[2] else None
                if inner is not None and inner[0] == 'param':
                    bad5.append('Ok(operand %d)' % inner[1])
                elif inner is not None and inner[0] == 'agg' and inner[1].rsplit('::', 1)[-1] in ('Int', 'UInt', 'Float') and not (
                        F.term_contains(r, lambda y: y == ('param', 1)) and F.term_contains(r, lambda y: y == ('param', 2))):
                    bad5.append(F.term_str(r)[:60])
        rep.check(not bad5, 'R5', '%s/result-from-both-operands' % tr.lower(), ab.loc(), '%d Ok result shapes, each built from both operands' % nret,
                  'impl %s for Value returns %s: an identity/fast path bypasses the kind check, so mixed operands (7u + 0) are not an error any more' % (tr, bad5))
    rep.floor('R1', 10, '(10 checked_* call sites)')
    rep.floor('R2', 20)
    rep.floor('R3', 2)
    rep.floor('R4', 14, '(3 same-kind numeric arms x 5 traits, Rem has no Float arm)')


def fixtures(ffx, rep):
    col = Collector()
    core(ffx, col, 'verif_fixtures::c08::Value', 'verif_fixtures::c08::resolve', 'verif_fixtures::c08::ExecutionError')
    expect_fixture_hits(rep, col, {
        'R1': ['add/Add', 'sub/i64::wrapping_sub', 'evaluator/Neg/i64'],
        'R2': ['mul/Int', 'sub/UInt/operands', 'div/UInt/result', 'rem/Int/result'],
        'R3': ['div/Int'],
        'R4': ['add/cast/IntToFloat', 'add/arm/Int,Float'],
    })
