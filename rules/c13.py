"""C13 — numeric literals and conversions preserve the number or fail (claimed clauses R1-R4)."""
import json, re
from . import facts as F
from .intervals import check_float_to_int_casts
from .report import Collector, expect_fixture_hits

LEVEL = 'other'
TRUSTED = ['rustc nightly (MIR, callee resolution, constant evaluation)', 'IEEE-754 / Rust `as` semantics (NaN -> 0, saturation)', "std's str::parse / from_str_radix / Display for i64,u64,f64 (exact, shortest round-trip)"]
EXPLANATION = ('R1: every float->integer `as` cast in the built-in functions is dominated by branch edges that establish not-NaN and a half-open range inside the target type '
               '(interval + NaN-flag abstract interpretation; a failed comparison constrains the operand only once NaN is excluded); R2: int<->uint conversions in int()/uint() use try_into with the error '
               'propagated, never `as`; R3: visit_Int/Uint/Double obtain the value from str::parse::<i64|u64|f64> / from_str_radix(_,16) on the token text, the Err edge reaches report_error, doubles must pass is_finite, '
               'no numeric cast and no unwrap_or*; R4: string()/int()/uint()/double() pair Display with the FromStr of the same type. Round-trips and signed hex literals are value-level and not decided.')
ASSUMPTIONS = ['string()∘inverse round-trips are delegated to std Display/FromStr (shortest round-trip) and not re-derived', 'literals such as -0x10 (sign inside the text handed to strip_prefix) are value-level and not decided']

FUNCS = 'cel_interpreter::functions::'


def casts(b, kinds):
    for bi, j, s in b.stmts():
        if s['k'] == 'Assign' and s['rv']['k'] == 'Cast' and s['rv']['kind'] in kinds:
            yield bi, s


def literal_signs(fx, tok):
    """'' and/or '-' : the sign spellings the `literal` rule of the parser ATN admits in front of token `tok`"""
    from .grammar import Grammar
    g = Grammar(fx, 'parser')
    out = set()
    for p in g.paths('literal', limit=1):
        names = [next(iter(x[1])) if x[0] == 'tok' and len(x[1]) == 1 else None for x in p]
        if names and names[-1] == tok:
            if len(names) == 1:
                out.add('')
            elif names[:-1] == ['MINUS']:
                out.add('-')
            else:
                raise F.Lost('unexpected literal alternative %s' % (p,))
    if not out:
        raise F.Lost('token %s not found in the literal rule' % tok)
    return out


def run(fx, rep):
    # ---------------- R5 literal payloads reach the evaluator unchanged
    rep.rule('R5', 'a literal node evaluates to the Value of the same kind with the payload unchanged (Val -> Value table, no casts)')
    vb = fx.bodies.get('<cel_interpreter::objects::Value as std::convert::From<cel_parser::reference::Val>>::from')
    if vb is None:
        raise F.Lost('From<Val> for Value not found')
    rep.analysed(vb)
    vpv = F.Prov(vb)
    want5 = {'Int': 'Int', 'UInt': 'UInt', 'Double': 'Float', 'Boolean': 'Bool', 'String': 'String', 'Bytes': 'Bytes'}
    got5 = {}
    for _, _, st in vb.stmts():
        if st['k'] == 'Assign' and st['rv']['k'] == 'Aggregate' and (st['rv'].get('adt') or '').endswith('objects::Value') and st['rv']['ops']:
            for x in vpv.of_operand(st['rv']['ops'][0]):
                y = x
                while y[0] == 'call' and len(y[2]) == 1 and y[1] in ('std::sync::Arc::new', 'std::convert::Into::into', 'std::convert::From::from'):
                    y = y[2][0]
                src = y[1][2] if y[0] == 'f' and y[1][0] == 'dc' and y[1][1] == ('param', 1) else '? ' + F.term_str(x)[:50]
                got5.setdefault(src, set()).add(st['rv']['variant'])
    c5 = [st for _, _, st in vb.stmts() if st['k'] == 'Assign' and st['rv']['k'] in ('Cast', 'BinaryOp', 'UnaryOp') and st['rv'].get('kind') != 'PtrToPtr' and st['rv']['k'] != 'BinaryOp']
    c5 = [st for st in c5 if st['rv']['k'] == 'Cast' and st['rv']['kind'] in ('IntToInt', 'IntToFloat', 'FloatToInt', 'FloatToFloat') or st['rv']['k'] == 'UnaryOp' and st['rv']['op'] == 'Neg']
    x5 = sorted({F.norm_callee(t) or '?' for bi, t in vb.calls() if (F.norm_callee(t) or '') not in ('std::sync::Arc::new', 'std::clone::Clone::clone', 'std::convert::Into::into', 'std::convert::From::from')})
    c5 = c5 + x5
    rep.check({k: sorted(v) for k, v in got5.items()} == {k: [v] for k, v in want5.items()} and not c5, 'R5', 'literal-value-table', vb.loc(), 'Val::X(p) -> Value::X(p) for the six payload kinds',
              'From<Val> for Value maps %s%s, expected %s with the payload unchanged' % ({k: sorted(v) for k, v in got5.items()}, ' through casts/negation' if c5 else '', want5))
    ev = fx.body('cel_interpreter::objects::Value::resolve')
    epv = F.Prov(ev)
    lits = [t for bi, t in ev.calls() if 'From<cel_parser::reference::Val>' in (F.resolved_callee(t) or '') or ((F.norm_callee(t) or '').endswith('Into::into') and 'reference::Val' in t['arg_tys'][0])]
    rep.check(len(lits) >= 1, 'R5', 'evaluator-uses-the-table', ev.loc(), 'Expr::Literal(v) => v.clone().into()', 'the evaluator does not convert literal nodes with From<Val> for Value')
    from .report import producer_rules
    producer_rules(fx, rep, 'producer rule: numeric literal nodes come only from their literal visitors; no constant folding elsewhere in the parser (C04 R5/R7/R9)', [('c04', 'C04', '^(R7/visit_(Int|Uint|Double|ConstantLiteral|Negate)/|R5/|R9/)')], 8)
    rep.rule('R1', 'float->int casts are dominated by NaN-excluding half-open range guards')
    rep.rule('R2', 'int<->uint conversions use try_into (no `as`)')
    rep.rule('R3', 'literal visitors: parse/from_str_radix on the token text, Err -> report_error, finite doubles only, no casts, no unwrap_or*')
    rep.rule('R4', 'conversion built-ins pair Display / FromStr of the matching type')
    n = 0
    for b in fx.bodies.values():
        if b.crate == 'cel_interpreter' and b.loc().startswith('interpreter/src/functions.rs') and b.raw['kind'] != 'Promoted':
            rep.analysed(b, calls=sum(1 for _ in b.calls()))
            n += check_float_to_int_casts(b, rep, 'R1')
    rep.floor('R1', 2, '(int(), uint())')
    # ---------------- R2
    for fn, src, dst in (('int', 'u64', 'i64'), ('uint', 'i64', 'u64')):
        b = fx.body(FUNCS + fn)
        bad = [s for _, s in casts(b, ('IntToInt',)) if s['rv']['from'] in ('i64', 'u64') and s['rv']['to'] in ('i64', 'u64')]
        rep.check(not bad, 'R2', '%s/no-int-as-cast' % fn, b.loc(), 'no `as` between i64 and u64', '%s() converts between int and uint with `as` (wraps)' % fn)
        tr = [t for bi, t in b.calls() if F.norm_callee(t) in ('std::convert::TryInto::try_into', 'std::convert::TryFrom::try_from')
              and (t['callee']['args'][:2] == [src, dst] or t['callee']['args'][:2] == [dst, src])]
        okk = len(tr) == 1
        if okk:
            # the Err of try_into must be mapped to an error and propagated (map_err + ?), never defaulted
            dflt = [t for bi, t in b.calls() if F.norm_callee(t) in ('std::result::Result::unwrap_or', 'std::result::Result::unwrap_or_default', 'std::result::Result::unwrap_or_else',
                                                                      'std::option::Option::unwrap_or', 'std::option::Option::unwrap_or_default', 'std::result::Result::ok')]
            okk = not dflt
        rep.check(okk, 'R2', '%s/try_into(%s->%s)-propagated' % (fn, src, dst), b.loc(), 'try_into with the error propagated', '%s() does not convert %s with a propagated try_into' % (fn, src))
    # ---------------- R3
    lits = {'visit_Int': ('i64', 'Int', True), 'visit_Uint': ('u64', 'UInt', True), 'visit_Double': ('f64', 'Double', False)}
    for name, (ty, variant, hexok) in lits.items():
        bs = [b for b in fx.bodies.values() if b.crate == 'cel_parser' and F.norm_path(b.path).endswith('::' + name) and b.raw['kind'] == 'AssocFn' and 'parser.rs' in b.loc()]
        if len(bs) != 1:
            raise F.Lost('literal visitor %s not found' % name)
        b = bs[0]
        rep.analysed(b)
        pv = F.Prov(b)
        parses = [t for bi, t in b.calls() if F.norm_callee(t) == 'core::str::<impl str>::parse']
        okk = len(parses) == 1 and parses[0]['callee']['args'][-1] == ty
        rep.check(okk, 'R3', '%s/parse::<%s>' % (name, ty), b.loc(), 'decimal text parsed by str::parse::<%s>' % ty, 'literal is not parsed with str::parse::<%s>' % ty)
        if hexok:
            rad = [t for bi, t in b.calls() if F.norm_callee(t) == 'core::num::<impl %s>::from_str_radix' % ty]
            okk = len(rad) >= 1 and all(F.op_const(t['args'][1]) == 16 for t in rad)
            rep.check(okk, 'R3', '%s/from_str_radix-16' % name, b.loc(), 'hex text parsed by %s::from_str_radix(_, 16)' % ty, 'hex literal is not parsed by %s::from_str_radix(_, 16)' % ty)
            # every (sign, radix) shape the grammar admits for this literal must be recognised: a hex test that only
            # knows the unsigned spelling sends `-0x..` to the decimal parser
            signs = literal_signs(fx, {'visit_Int': 'NUM_INT', 'visit_Uint': 'NUM_UINT'}[name])
            prefixes = set()
            for bi, t in b.calls():
                if F.norm_callee(t) in ('core::str::<impl str>::strip_prefix', 'core::str::<impl str>::starts_with', 'core::str::<impl str>::trim_start_matches',
                                        'core::str::<impl str>::replace', 'core::str::<impl str>::replacen', 'core::str::<impl str>::find', 'core::str::<impl str>::contains', 'core::str::<impl str>::split_once'):
                    for x in pv.of_operand(t['args'][1]):
                        if x[0] == 'const' and isinstance(x[1], str):
                            prefixes.add((F.norm_callee(t).rsplit('::', 1)[-1], x[1]))
            reads_sign = bool(re.search(r'"k": "Field"[^{}]*"name": "sign"|"name": "sign"[^{}]*"k": "Field"', json.dumps(b.raw['blocks'])))
            for sg in sorted(signs):
                want = sg + '0x'
                okk = any(c == want for _, c in prefixes) or (sg and (reads_sign or any(m in ('replace', 'replacen', 'find', 'contains', 'split_once') and c == '0x' for m, c in prefixes)))
                rep.check(bool(okk), 'R3', '%s/hex-shape/%s' % (name, want), b.loc(), 'the spelling %s.. is recognised as hexadecimal' % want,
                          '%s tests for the hex prefix with %s only: the grammar also admits `%s..`, which is handed to the decimal parser and rejected (`-0x1`, `-0x8000000000000000` do not compile)' % (name, sorted(c for _, c in prefixes), want))
        nc = [s for _, s in casts(b, ('IntToInt', 'FloatToInt', 'IntToFloat', 'FloatToFloat')) if not (s['rv']['from'] == 'usize' or s['rv']['to'] == 'usize')]
        rep.check(not nc, 'R3', '%s/no-numeric-cast' % name, b.loc(), 'no `as` on the literal value', 'literal value passes through an `as` cast (%s)' % [(s['rv']['from'], s['rv']['to']) for s in nc])
        dflt = [F.norm_callee(t) for bi, t in b.calls() if re.search(r'::(unwrap_or|unwrap_or_default|unwrap_or_else|ok)$', F.norm_callee(t) or '')]
        rep.check(not dflt, 'R3', '%s/no-default-on-error' % name, b.loc(), 'parse errors are not defaulted', 'parse error is replaced by a default (%s)' % dflt)
        rpt = [t for bi, t in b.calls() if (F.norm_callee(t) or '').endswith('::report_error')]
        rep.check(len(rpt) >= 1, 'R3', '%s/Err->report_error' % name, b.loc(), 'the Err edge reports a parse error', 'no report_error call on the Err edge')
        # the literal payload derives from the parse result
        aggs = [s for _, _, s in b.stmts() if s['k'] == 'Assign' and s['rv']['k'] == 'Aggregate' and s['rv'].get('adt', '').endswith('reference::Val') and s['rv']['variant'] == variant]
        okk = len(aggs) == 1
        if okk:
            ts = pv.of_operand(aggs[0]['rv']['ops'][0])
            okk = all(F.term_contains(x, lambda y: y[0] == 'call' and (y[1] == 'core::str::<impl str>::parse' or y[1].endswith('from_str_radix'))) for x in ts)
        rep.check(okk, 'R3', '%s/value-is-parse-result' % name, b.loc(), 'Val::%s(parse result)' % variant, 'literal payload is not the parse result')
        if name == 'visit_Double':
            fin = [(bi, t) for bi, t in b.calls() if F.norm_callee(t) in ('std::f64::<impl f64>::is_finite', 'core::f64::<impl f64>::is_finite')]
            okk = len(fin) == 1 and bool(aggs)
            if okk:
                # the aggregate must lie on the is_finite == true side only
                bi, t = fin[0]
                st = b.blocks[t['target']]['term']
                okk = st['k'] == 'SwitchInt' and F.op_local(st['discr']) == t['dest']['l']
                if okk:
                    f_t = [x[1] for x in st['arms'] if int(x[0]) == 0]
                    f_t = f_t[0] if f_t else st['otherwise']
                    agg_blocks = {bb for bb, j, s in b.stmts() if s is aggs[0]}
                    okk = not (agg_blocks & b.reachable_from([f_t]))
            rep.check(okk, 'R3', 'visit_Double/finite-only', b.loc(), 'inf/overflowing double literals are rejected', 'a non-finite double literal can become a program')
    # ---------------- R4
    table = {'int': 'i64', 'uint': 'u64', 'double': 'f64'}
    for fn, ty in table.items():
        b = fx.body(FUNCS + fn)
        rep.analysed(b)
        parses = [t for bi, t in b.calls() if F.norm_callee(t) == 'core::str::<impl str>::parse']
        okk = len(parses) == 1 and parses[0]['callee']['args'][-1] == ty
        rep.check(okk, 'R4', '%s/from-string-parse::<%s>' % (fn, ty), b.loc(), 'string -> %s by str::parse::<%s>' % (fn, ty), '%s(string) does not use str::parse::<%s>' % (fn, ty))
        if fn == 'double' and parses:
            # str::parse::<f64> saturates: "1e400" -> inf.  The result must be tested for infinity before it becomes a value.
            dpv = F.Prov(b)
            pbi = [bi for bi, t in b.calls() if F.norm_callee(t) == 'core::str::<impl str>::parse'][0]
            tests = [t for bi, t in b.calls() if re.search(r'f64>::(is_infinite|is_finite)$', F.norm_callee(t) or '')
                     and any(F.term_contains(x, lambda y: y[0] == 'call' and y[3] == pbi) for x in dpv.of_operand(t['args'][0]))]
            rep.check(len(tests) >= 1, 'R4', 'double/overflowing-text-rejected', b.loc(), 'the parsed double is tested for infinity',
                      'double(string) returns the result of str::parse::<f64> untested: double(\'1e400\') is +inf, a saturated number, instead of an error')
    sb = fx.body(FUNCS + 'string')
    rep.analysed(sb)
    spv = F.Prov(sb, transparent={k: v for k, v in F.TRANSPARENT.items() if k != 'std::string::ToString::to_string'})
    ts = [(bi, t) for bi, t in sb.calls() if F.norm_callee(t) == 'std::string::ToString::to_string']
    seen = set()
    for bi, t in ts:
        ty = t['callee']['args'][0]
        if ty in ('i64', 'u64', 'f64'):
            src = spv.of_operand(t['args'][0])
            variant = {'i64': 'Int', 'u64': 'UInt', 'f64': 'Float'}[ty]
            okk = all(x[0] == 'f' and x[1][0] == 'dc' and x[1][2] == variant for x in src)
            seen.add(ty)
            rep.check(okk, 'R4', 'string/%s-Display' % ty, F.loc_of(t['span']), 'string(%s) is Display of the payload' % variant, 'string() renders something other than the %s payload' % variant)
    rep.check(seen == {'i64', 'u64', 'f64'}, 'R4', 'string/all-three-numeric-kinds', sb.loc(), 'Int, UInt, Float rendered by Display', 'string() lacks Display rendering for %s' % ({'i64', 'u64', 'f64'} - seen))
    sc = [s for _, s in casts(sb, ('IntToInt', 'FloatToInt', 'IntToFloat', 'FloatToFloat'))]
    rep.check(not sc, 'R4', 'string/no-numeric-cast', sb.loc(), 'no `as` before rendering', 'string() casts the number before rendering')
    rep.floor('R3', 17)
    rep.floor('R4', 8)


def fixtures(ffx, rep):
    col = Collector()
    for b in ffx.bodies.values():
        if b.path.startswith('verif_fixtures::c13::'):
            check_float_to_int_casts(b, col, 'R1')
    expect_fixture_hits(rep, col, {'R1': ['unguarded-cast/verif_fixtures::c13::int_nan_blind', 'unguarded-cast/verif_fixtures::c13::uint_closed_upper', 'unguarded-cast/verif_fixtures::c13::no_guard']})
    silent = [k for k in col.bad.get('R1', []) if 'good' in k]
    rep.check(not silent, 'fixture', 'R1/silent-on-guarded-twins', 'fixtures/', 'guarded twins accepted', 'interval analysis rejects a correctly guarded cast: %s' % silent)
