"""C17 — host data converts to CEL values without loss of structure (method tables + panic ledger)."""
import json, os, re
from . import facts as F
from .zone import zone_conversions
from . import panics as P

LEVEL = 'other'
TRUSTED = ['rustc nightly (MIR, impl tables)', 'serde: the data model, provided (default) trait methods (serialize_entry, collect_str, i128/u128 erroring defaults)', 'tables/reference/serde_table.json (the property\'s shape table)']
EXPLANATION = ('R1: for `impl serde::Serializer for Serializer` and the compound serializers, the value returned by every method is reduced to a normal form by provenance (delegations to sibling methods are substituted) and compared with the '
               'shape table: i8..i64 -> Int, u8..u64 -> UInt (widening only through From, an `as` cast changes the form), f32/f64 -> Float, bool -> Bool, char/str -> String, bytes -> Bytes, none/unit/unit_struct -> Null, unit_variant -> String(variant), '
               'some/newtype_struct -> inner (marker names route to the time serializer), newtype_variant -> Map{variant: inner}, seq/tuple/tuple_struct -> List, tuple_variant -> Map{variant: List}, map/struct -> Map, struct_variant -> Map{variant: Map}; '
               'element/entry methods store to_value(element) / KeySerializer(key) -> Serializer(value). R2: KeySerializer accepts bool, integers, char/str, unit variants and transparent newtypes/options and rejects everything else with InvalidKey. '
               'R3: no unaudited panic edge in ser.rs. R4: the Duration/Timestamp wrappers and the time serializer agree on the marker names and the Duration struct carries num_seconds / subsec_nanos. Commutation with serde_json is value-level and not decided.')
ASSUMPTIONS = ['commutation with serde_json is not decided', 'serde\'s provided methods behave as documented']

HERE = os.path.dirname(os.path.dirname(os.path.abspath(__file__)))
SER = 'cel_interpreter::ser::'
TR = dict(F.TRANSPARENT)
TR['std::slice::<impl [T]>::to_vec'] = 0
TR['std::vec::Vec::with_capacity'] = 0


def impl_methods(fx, self_ty, trait):
    out = {}
    for b in fx.bodies.values():
        if b.raw.get('impl_self') == self_ty and b.raw.get('impl_trait') == trait and b.raw['kind'] == 'AssocFn':
            out[b.path.rsplit('::', 1)[-1]] = b
    return out


def subst(term, args):
    if not isinstance(term, tuple):
        return term
    if term[0] == 'param':
        i = term[1] - 1
        return args[i] if i < len(args) else term
    if term[0] == 'call':
        return ('call', term[1], tuple(subst(a, args) for a in term[2]), term[3])
    if term[0] == 'agg':
        return ('agg', term[1], tuple(subst(a, args) for a in term[2]))
    return tuple(subst(x, args) if isinstance(x, tuple) else x for x in term)


def normal_forms(fx, self_ty, trait, method, depth=0, cache=None):
    """set of provenance terms of the value returned by <self_ty as trait>::method, with sibling delegations substituted"""
    ms = impl_methods(fx, self_ty, trait)
    if method not in ms:
        return None
    b = ms[method]
    pv = F.Prov(b, transparent=TR)
    out = set()
    for _, ts in pv.per_def(0):
        for t in ts:
            done = False
            if t[0] == 'call' and isinstance(t[1], str) and depth < 4:
                m = re.match(r'^(serde::Serializer|serde::ser::Serialize\w+)::(\w+)$', t[1])
                if m and t[2] and (t[2][0] == ('param', 1)):
                    sub = normal_forms(fx, self_ty, m.group(1), m.group(2), depth + 1)
                    if sub is not None:
                        for s_ in sub:
                            out.add(subst(s_, t[2]))
                        done = True
            if not done:
                out.add(t)
    return out


LOSSLESS = {('i8', 'i16'), ('i8', 'i32'), ('i8', 'i64'), ('i16', 'i32'), ('i16', 'i64'), ('i32', 'i64'), ('u8', 'u16'), ('u8', 'u32'), ('u8', 'u64'), ('u16', 'u32'), ('u16', 'u64'), ('u32', 'u64'),
            ('u8', 'i16'), ('u8', 'i32'), ('u8', 'i64'), ('u16', 'i32'), ('u16', 'i64'), ('u32', 'i64'), ('f32', 'f64')}


def drop_lossless_casts(t):
    """`x as T` that cannot change the number (range of the source inside the target) is the identity"""
    if not isinstance(t, tuple) or not t:
        return t
    if t[0] == 'cast':
        m = re.match(r'^(IntToInt|FloatToFloat):(\w+)->(\w+)$', t[1])
        if m and (m.group(2), m.group(3)) in LOSSLESS:
            return drop_lossless_casts(t[2])
    return tuple(drop_lossless_casts(x) if isinstance(x, tuple) else x for x in t)


def render(forms):
    forms = {drop_lossless_casts(x) for x in forms}
    """successful forms (error propagation `(x as Break).0` alternatives dropped)"""
    oks = sorted(F.term_str(x) for x in forms if not (x[0] == 'f' and x[1][0] == 'dc' and x[1][2] == 'Break'))
    return ' || '.join(oks)


def run(fx, rep):
    # "converting and then exporting to JSON equals serialising directly" has an export leg: the per-variant export table and the
    # text of member names are C18 R1/R4 (json feature only)
    if 'json' in fx.features('cel_interpreter'):
        from .report import producer_rules
        producer_rules(fx, rep, 'producer rule: the JSON export used by the commutation clause maps each variant as documented and names members by the plain key text (C18 R1/R4)',
                       [('c18', 'C18', r'^(R1/arm/|R4/)')], 8)
    rep.rule('R1', 'Serializer / compound serializer method table equals the shape table')
    rep.rule('R2', 'KeySerializer table: accepted key kinds, everything else InvalidKey')
    rep.rule('R3', 'no unaudited panic edge in ser.rs')
    rep.rule('R4', 'time wrappers and time serializer agree on marker names and fields')
    rep.rule('R5', 'no zone conversion in ser.rs: a Timestamp wrapper keeps the offset of the host value')
    if 'chrono' in fx.features('cel_interpreter'):
        nz = 0
        for zb in fx.bodies.values():
            if zb.crate == 'cel_interpreter' and zb.raw['kind'] != 'Promoted' and not zb.is_derived() and zb.loc().startswith('interpreter/src/ser.rs'):
                nz += zone_conversions(zb, rep, 'R5')
        rep.check(nz >= 100, 'R5', 'call-sites-scanned', 'interpreter/src/ser.rs', '%d call sites scanned, none converts a zone' % nz, 'only %d call sites scanned (anchor lost)' % nz)
        # the time serializer parses the payload into the type Value::Timestamp holds
        tsb = [b for b in fx.bodies.values() if re.search(r'TimeSerializer as serde::Serializer>::serialize_str$', b.path)]
        targets = set()
        for b in tsb:
            for bi, t in b.calls():
                if F.norm_callee(t) == 'core::str::<impl str>::parse':
                    targets.add(str(t['callee']['args'][-1]))
        rep.check(any('chrono::DateTime<chrono::FixedOffset>' in x for x in targets) and all('chrono::DateTime<chrono::FixedOffset>' in x for x in targets), 'R5', 'timestamp-parsed-as-fixed-offset',
                  tsb[0].loc() if tsb else '-', 'TimeSerializer::serialize_str parses into DateTime<FixedOffset>', 'TimeSerializer::serialize_str parses the timestamp payload into %s, not DateTime<FixedOffset>' % sorted(targets))
    ref = json.load(open(os.path.join(HERE, 'tables/reference/serde_table.json')))
    for self_ty, rule in (('Serializer', 'R1'), ('KeySerializer', 'R2')):
        ms = impl_methods(fx, SER + self_ty, 'serde::Serializer')
        want = ref[self_ty]
        for m in sorted(set(want) | set(ms)):
            if m not in ms:
                # not provided: serde's default applies
                dflt = want.get(m) == '<serde default>'
                rep.check(dflt, rule, '%s/%s' % (self_ty, m), '-', 'serde\'s provided default', 'method %s is not provided by impl Serializer for %s' % (m, self_ty))
                continue
            b = ms[m]
            rep.analysed(b, calls=sum(1 for _ in b.calls()))
            got = render(normal_forms(fx, SER + self_ty, 'serde::Serializer', m))
            w = want.get(m)
            if w is None:
                rep.violation(rule, '%s/%s' % (self_ty, m), b.loc(), 'method %s is not in the shape table (fail closed): returns %s' % (m, got[:120]))
                continue
            okk = re.fullmatch(w, got) is not None
            rep.check(okk, rule, '%s/%s' % (self_ty, m), b.loc(), got[:140], '%s::%s returns `%s`, the shape table requires `%s`' % (self_ty, m, got[:160], w))
    # compound serializers
    for self_ty, trait, table in ref['compound']:
        ms = impl_methods(fx, SER + self_ty, 'serde::ser::' + trait)
        for m, w in table.items():
            if m not in ms:
                rep.violation('R1', '%s/%s/%s' % (self_ty, trait, m), '-', 'method %s::%s missing' % (trait, m))
                continue
            b = ms[m]
            rep.analysed(b)
            got = render(normal_forms(fx, SER + self_ty, 'serde::ser::' + trait, m))
            okk = re.fullmatch(w['returns'], got) is not None
            rep.check(okk, 'R1', '%s/%s/%s' % (self_ty, trait, m), b.loc(), got[:140], '%s::%s returns `%s`, expected `%s`' % (self_ty, m, got[:160], w['returns']))
            if 'effect' in w:
                eff = effects(fx, b)
                okk = any(re.fullmatch(w['effect'], e) for e in eff)
                rep.check(okk, 'R1', '%s/%s/%s/effect' % (self_ty, trait, m), b.loc(), ' ; '.join(eff)[:140], '%s::%s has effects %s, expected `%s`' % (self_ty, m, eff, w['effect']))
    # ---------------- R3
    ledger = P.load_ledger()
    bodies = [b for b in sorted(fx.bodies.values(), key=lambda x: (x.loc(), x.path)) if b.crate == 'cel_interpreter' and b.raw['kind'] != 'Promoted' and not b.is_derived() and b.loc().startswith('interpreter/src/ser.rs')]
    edges = P.audit(fx, rep, 'R3', bodies, ledger, 'ser')
    rep.ok('R3', 'scanned', 'interpreter/src/ser.rs', '%d bodies scanned, %d panic edges' % (len(bodies), len(edges)))
    # TryIntoValue / add_variable path
    tiv = [b for b in fx.bodies.values() if b.raw.get('impl_trait') == 'cel_interpreter::objects::TryIntoValue' and b.raw['kind'] == 'AssocFn']
    for b in tiv:
        es, pv = P.collect_body(b)
        rep.check(not [e for e in es if not P.auto_discharge(e, pv)], 'R3', 'TryIntoValue/%s' % (b.raw.get('impl_self') or '?')[:40], b.loc(), 'no panic edge', 'panic edge in %s' % b.path)
    # ---------------- R4
    if 'chrono' in fx.features('cel_interpreter'):
        names = {}
        for ty in ('Duration', 'Timestamp'):
            prod = [b for b in fx.bodies.values() if b.raw.get('impl_self') == SER + ty and b.raw.get('impl_trait') == 'serde::Serialize' and b.raw['kind'] == 'AssocFn']
            okk = len(prod) == 1
            if okk:
                b = prod[0]
                pv = F.Prov(b)
                cs = [(bi, t) for bi, t in b.calls() if F.norm_callee(t) == 'serde::Serializer::serialize_newtype_struct']
                okk = len(cs) == 1
                if okk:
                    nm = pv.of_operand(cs[0][1]['args'][1])
                    okk = len(nm) == 1 and next(iter(nm))[0] == 'const'
                    if okk:
                        names[ty] = next(iter(nm))[1]
            rep.check(okk, 'R4', 'producer/%s' % ty, prod[0].loc() if prod else '-', 'serializes as newtype struct %r' % names.get(ty), 'wrapper %s does not serialize as a marker newtype struct' % ty)
        cons = impl_methods(fx, SER + 'Serializer', 'serde::Serializer').get('serialize_newtype_struct')
        seen = {}
        if cons:
            cpv = F.Prov(cons)
            for bi, t in cons.calls():
                if F.norm_callee(t) == 'std::cmp::PartialEq::eq':
                    for a in t['args']:
                        for x in cpv.of_operand(a):
                            if x[0] == 'const' and isinstance(x[1], str):
                                tgt = t['target']
                                st = cons.blocks[tgt]['term']
                                true_t = st['otherwise'] if st['k'] == 'SwitchInt' else None
                                aggs = [s['rv']['variant'] for blk in cons.reachable_from([true_t]) - cons.reachable_from([a_[1] for a_ in st['arms']]) for s in cons.blocks[blk]['stmts']
                                        if s['k'] == 'Assign' and s['rv']['k'] == 'Aggregate' and s['rv'].get('adt') == SER + 'TimeSerializer'] if true_t is not None else []
                                seen[x[1]] = aggs
        for ty in ('Duration', 'Timestamp'):
            rep.check(seen.get(names.get(ty)) == [ty], 'R4', 'consumer/%s-name-routes-to-TimeSerializer::%s' % (ty, ty), cons.loc() if cons else '-', '%r -> TimeSerializer::%s' % (names.get(ty), ty),
                      'marker name %r of the %s wrapper is routed to %s by Serializer::serialize_newtype_struct' % (names.get(ty), ty, seen.get(names.get(ty))))
        # DurationProxy fields
        proxy = [b for b in fx.bodies.values() if 'DurationProxy as serde::Serialize>::serialize' in b.path]
        okk = len(proxy) == 1
        if okk:
            b = proxy[0]
            pv = F.Prov(b)
            fields = {}
            for bi, t in b.calls():
                if F.norm_callee(t) == 'serde::ser::SerializeStruct::serialize_field':
                    k = pv.of_operand(t['args'][1])
                    v = pv.of_operand(t['args'][2])
                    if len(k) == 1 and next(iter(k))[0] == 'const':
                        fields[next(iter(k))[1]] = sorted(F.term_str(x) for x in v)
            okk = fields == {'secs': ['num_seconds(arg1.0)'], 'nanos': ['subsec_nanos(arg1.0)']}
            rep.check(okk, 'R4', 'DurationProxy/fields', b.loc(), 'secs = num_seconds, nanos = subsec_nanos', 'Duration wrapper serializes %s: the sub-second part or the seconds are not the exact components' % fields)
        ts = impl_methods(fx, SER + 'SerializeTimestamp', 'serde::ser::SerializeStruct')
        if 'serialize_field' in ts:
            b = ts['serialize_field']
            consts = {x[1] for bi, t in b.calls() if F.norm_callee(t) == 'std::cmp::PartialEq::eq' for a in t['args'] for x in F.Prov(b).of_operand(a) if x[0] == 'const' and isinstance(x[1], str)}
            rep.check(consts == {'secs', 'nanos'}, 'R4', 'SerializeTimestamp/field-names', b.loc(), 'accepts exactly secs and nanos', 'SerializeTimestamp accepts fields %s' % sorted(consts))
    rep.floor('R1', 40)
    rep.floor('R2', 28)


def effects(fx, b):
    """rendered side effects of a compound-serializer method: pushes / inserts / field stores on *self"""
    pv = F.Prov(b, transparent=TR)
    out = []
    for bi, t in b.calls():
        n = F.norm_callee(t)
        if n in ('std::vec::Vec::push', 'std::collections::HashMap::insert'):
            out.append('%s(%s)' % (n.rsplit('::', 1)[-1], ', '.join('|'.join(sorted(F.term_str(x) for x in pv.of_operand(a))) for a in t['args'])))
    for bi, j, s in b.stmts():
        if s['k'] == 'Assign' and s['place']['p'] and any(e['k'] == 'Field' and e.get('adt', '').startswith(SER) for e in s['place']['p']):
            fld = [e.get('name') for e in s['place']['p'] if e['k'] == 'Field'][-1]
            out.append('store %s = %s' % (fld, '|'.join(sorted(F.term_str(x) for x in pv.of_rvalue(s['rv'], pv.depth, ())))))
    return out
