"""Shared rule: a timestamp's UTC offset is part of the value (accessors and string() read local fields),
so nothing in the interpreter may convert a DateTime to another zone or parse one as Utc/Local."""
import re
from . import facts as F

CONV = re.compile(r'^chrono::(datetime::)?DateTime(::<[^>]*>)?::(with_timezone|to_utc|fixed_offset|naive_utc|naive_local)$')
ZONES = re.compile(r'\bchrono::(offset::)?(utc::)?(Utc|Local)\b')


def short(fn):
    if fn.startswith('verif_fixtures'):
        return fn
    fn = re.sub(r'<([\w:]+) as [^>]+>::', lambda m: m.group(1).rsplit('::', 1)[-1] + '::', fn)
    return re.sub(r'::\{closure#\d+\}', '/closure', fn.split('::', 1)[-1] if fn.startswith('cel_') else fn)


def zone_conversions(b, rep, rule):
    n = 0
    fn = F.norm_path(b.path)
    for bi, t in b.calls():
        n += 1
        nc = F.norm_callee(t) or ''
        rc = F.resolved_callee(t) or ''
        m = CONV.match(nc)
        if m:
            rep.violation(rule, 'zone-conversion/%s/%s' % (short(fn), m.group(3)), F.loc_of(t['span']),
                          '%s replaces or drops the UTC offset the timestamp was given: getHours(), getDate(), string() then answer for another zone' % nc)
            continue
        gen = ' '.join(str(a) for a in (t.get('callee') or {}).get('args', []))
        if ZONES.search(gen) or ZONES.search(rc) or ZONES.search(nc):
            what = (ZONES.search(gen) or ZONES.search(rc) or ZONES.search(nc)).group(0)
            rep.violation(rule, 'zone-conversion/%s/%s<%s>' % (short(fn), nc.rsplit('::', 1)[-1], what.rsplit('::', 1)[-1]), F.loc_of(t['span']),
                          '%s is instantiated with %s: the timestamp is moved to that zone and loses the offset it was written with' % (nc, what))
    return n
