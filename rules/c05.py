"""C05 — execution is pure, repeatable and safe to share across threads.

Proof-shaped: in safe Rust `execute(&Program, &Context)` cannot change either
unless unsafe code, interior mutability reachable from those types, or global
state is involved; each of those is excluded by exhaustive enumeration of a
finite set of items/types/call sites, and the Send/Sync/borrow obligations are
discharged by rustc itself on witness programs (run_once)."""
import re
from . import facts as F
from .witness import run_witnesses
from .report import Collector, expect_fixture_hits

LEVEL = 'proof'
TRUSTED = ['rustc nightly (type checking, borrow checking, auto-trait inference, MIR construction)',
           "std's Arc contract (make_mut/get_mut hand out &mut only when unique or after cloning)",
           'tables/nondet_apis in rules/c05.py (reviewed list of clock/random/env/fs/net/thread APIs)']
EXPLANATION = ('Exhaustive enumeration over the compiled crates: O1 no user-written unsafe block/fn/impl in cel_interpreter and the '
               'hand-written part of cel_parser; O2 the type closure of Program/Context/Value/Key/Map/FunctionRegistry/ExecutionError contains no '
               'UnsafeCell, Rc, raw union or &mut, only Arc as shared container and dyn objects bounded by Send+Sync; O3 no mutable/interior-mutable '
               'static or thread_local in cel_interpreter; O4 Arc::make_mut/get_mut only on operands owned by value; O5 rustc-checked witnesses '
               '(Send+Sync, scoped-thread sharing compiles; mutation through &Context / of a borrowed parent / non-Send closure fail with the expected error codes); '
               'O6 no call to a nondeterministic or environment API anywhere in cel_interpreter.')
ASSUMPTIONS = ['host-registered closures are outside the claim (their own state is the host\'s)',
               'HashMap iteration order is the exemption the property itself grants',
               'dependencies (chrono, regex, nom, serde, std) are trusted not to keep hidden global mutable state on the APIs used']

ROOTS = ['cel_interpreter::Program', 'cel_interpreter::context::Context', 'cel_interpreter::objects::Value',
         'cel_interpreter::objects::Key', 'cel_interpreter::objects::Map', 'cel_interpreter::magic::FunctionRegistry',
         'cel_interpreter::ExecutionError', 'cel_parser::ast::IdedExpr', 'cel_parser::ast::Expr']

# O6: reviewed deny-list, matched as prefixes of the generic-free resolved callee path
NONDET = [
    ('std::time::Instant::now', 'clock'), ('std::time::SystemTime::now', 'clock'), ('std::time::SystemTime::elapsed', 'clock'),
    ('std::time::Instant::elapsed', 'clock'),
    ('chrono::Utc::now', 'clock'), ('chrono::Local::now', 'clock'), ('chrono::offset::Utc::now', 'clock'),
    ('chrono::offset::Local::now', 'clock'), ('chrono::offset::Local::', 'local time zone'),
    ('chrono::offset::local::', 'local time zone'), ('chrono::Local::', 'local time zone'),
    ('std::env::', 'environment'), ('std::fs::', 'file system'), ('std::net::', 'network'), ('std::process::', 'process'),
    ('std::thread::', 'thread'), ('std::io::stdin', 'stdin'), ('std::io::Stdin', 'stdin'),
    ('std::collections::hash_map::RandomState::new', 'random seed'), ('std::hash::RandomState::new', 'random seed'),
    ('rand::', 'random'), ('getrandom::', 'random'), ('fastrand::', 'random'),
    ('std::sync::Mutex', 'lock'), ('std::sync::RwLock', 'lock'), ('std::sync::atomic::', 'atomic global'),
    ('std::sync::OnceLock', 'lazy global'), ('std::sync::LazyLock', 'lazy global'), ('std::sync::Once::', 'lazy global'),
    ('std::cell::', 'interior mutability'), ('std::thread::LocalKey', 'thread local'),
    ('std::ptr::', 'raw pointer'), ('std::mem::transmute', 'transmute'),
]
# std::ptr/std::mem calls reachable only from std macro expansions are filtered by `from expansion of an external macro`

HANDWRITTEN_PARSER_EXCLUDE = 'antlr/src/gen/'


def in_scope_file(loc):
    return not loc.startswith(HANDWRITTEN_PARSER_EXCLUDE) and not loc.startswith('/')


def run(fx, rep):
    core(fx, rep, ('cel_interpreter', 'cel_parser'), 'cel_interpreter', ROOTS)
    rep.floor('O2', len(ROOTS))
    rep.floor('O4', 3, '(Arc::make_mut x2, Arc::get_mut in impl Add for Value)')


def fixtures(ffx, rep):
    col = Collector()
    core(ffx, col, ('verif_fixtures',), 'verif_fixtures', ['verif_fixtures::c05::BadCtx'])
    expect_fixture_hits(rep, col, {
        'O1': ['block/verif_fixtures::c05::in_place', 'fn/verif_fixtures::c05::raw', 'manual-auto-trait'],
        'O2': ['UnsafeCell', 'Rc/', 'Dyn/'],
        'O3': ['static/verif_fixtures::c05::COUNTER', 'static/verif_fixtures::c05::RAW', 'TL'],
        'O4': ['verif_fixtures::c05::append'],
        'O6': ['std::time::SystemTime::now', 'std::env::var', 'std::sync::atomic::'],
    })


def core(fx, rep, crates, main_crate, roots):
    rep.rule('O1', 'no user-written unsafe block / fn / impl (HIR; compiler-generated and external-macro unsafe excluded)')
    rep.rule('O2', 'type closure of the shared types: no UnsafeCell/Rc/union/&mut; dyn objects are Send+Sync; unknown shapes fail closed')
    rep.rule('O3', 'no `static mut`, non-Freeze static, thread_local or LocalKey in cel_interpreter')
    rep.rule('O4', 'Arc::make_mut / get_mut only on a by-value operand of the operator impl')
    rep.rule('O6', 'no clock/random/env/fs/net/thread/lock/cell API called from cel_interpreter')
    # ---------------- O1
    for cn in crates:
        c = fx.crate(cn)
        n_owner = 0
        for u in c['unsafe']:
            loc = F.loc_of(u['span'])
            if cn == 'cel_parser' and not in_scope_file(loc):
                continue
            userish = u['user'] and (not u['span']['exp'] or u['span'].get('macro_local', False))
            if u['kind'] == 'fn':
                userish = True
            rep.check(not userish, 'O1', '%s/%s/%s' % (cn, u['kind'], u['owner']), loc,
                      'compiler-generated or external-macro unsafe (%s)' % u['span'].get('macro', '-'),
                      'user-written unsafe %s in %s' % (u['kind'], u['owner']))
        for i in c['impls']:
            loc = F.loc_of(i['span'])
            if cn == 'cel_parser' and not in_scope_file(loc):
                continue
            if i.get('unsafe'):
                derived = i['span']['exp'] and not i['span'].get('macro_local', False)
                rep.check(derived, 'O1', '%s/unsafe-impl/%s/%s' % (cn, i.get('trait'), i['self']), loc,
                          'derive-generated marker impl', 'user-written `unsafe impl %s for %s`' % (i.get('trait'), i['self']))
            if i.get('trait') in ('std::marker::Send', 'std::marker::Sync') and not i.get('negative'):
                rep.violation('O1', '%s/manual-auto-trait/%s/%s' % (cn, i['trait'], i['self']), loc,
                              'manual `impl %s for %s` overrides auto-trait inference' % (i['trait'], i['self']))
        # every fn body in scope counts as examined
        for b in c['bodies']:
            if cn == 'cel_parser' and not in_scope_file(F.loc_of(b['span'])):
                continue
            n_owner += 1
            rep.analysed(b['path'])
        rep.ok('O1', '%s/bodies-scanned' % cn, '-', '%d bodies scanned for unsafe blocks' % n_owner)
    # ---------------- O2
    closures = {}
    for cn in crates:
        for tc in fx.crate(cn)['type_closure']:
            closures[tc['root']] = tc
    for root in roots:
        if root not in closures:
            raise F.Lost('type-closure root %s not found' % root)
        tc = closures[root]
        bad = 0
        for f in tc['found']:
            k = f['kind']
            chain = ' > '.join(x[:60] for x in f['chain'][-4:])
            key = '%s/%s/%s' % (root, k, f['ty'][:90])
            if k == 'Arc':
                rep.ok('O2', key, '-', 'Arc: shared immutable container (payload walked)')
            elif k == 'Dyn':
                okk = 'std::marker::Send' in f['auto'] and 'std::marker::Sync' in f['auto']
                rep.check(okk, 'O2', key, '-', 'dyn object bounded by Send + Sync', 'dyn object without Send+Sync bound via ' + chain)
                bad += (not okk)
            elif k in ('UnsafeCell', 'Rc', 'Union', 'MutRef'):
                rep.violation('O2', key, '-', '%s reachable from %s via %s' % (k, root, chain))
                bad += 1
            elif k == 'FnPtr':
                rep.ok('O2', key, '-', 'plain fn pointer (no state)')
            else:
                rep.violation('O2', key, '-', 'unrecognised type shape %s (%s) reachable from %s via %s: fail closed' % (k, f['ty'][:80], root, chain))
                bad += 1
        rep.check(bad == 0, 'O2', '%s/closure' % root, '-', '%d types walked, no interior mutability' % tc['visited'],
                  '%d offending types' % bad)
    # ---------------- O3
    ci = fx.crate(main_crate)
    for s in ci['statics']:
        if s['span'].get('exp') and str(s['span'].get('macro', '')).startswith('#[derive(') and not s['span'].get('macro_local'):
            rep.ok('O3', 'static-derive-generated/%s' % re.sub(r'::\{.*', '', s['path']), F.loc_of(s['span']),
                   'generated by %s for the derived impl only (not on the execution path; derived bodies are excluded from every rule)' % s['span'].get('macro'))
            continue
        okk = (not s['mut']) and s['freeze'] and 'LocalKey' not in s['ty']
        rep.check(okk, 'O3', 'static/%s' % s['path'], F.loc_of(s['span']), 'immutable Freeze static',
                  'static %s is %s' % (s['path'], 'mut' if s['mut'] else 'interior-mutable or thread-local (%s)' % s['ty'][:60]))
    for c in ci['consts']:
        if 'LocalKey' in c['ty'] and c['span'].get('exp') and str(c['span'].get('macro', '')).startswith('#[derive(') and not c['span'].get('macro_local'):
            continue
        if 'LocalKey' in c['ty']:
            rep.violation('O3', 'thread_local/%s' % c['path'], F.loc_of(c['span']), 'thread_local! key %s' % c['path'])
    ntl = 0
    for b in fx.bodies.values():
        if b.crate != main_crate or b.is_derived():
            continue      # derive-generated bodies (std derives, thiserror, arbitrary) are compiler/derive output, not interpreter logic
        for i, j, s in b.stmts():
            if s['k'] == 'Assign' and s['rv']['k'] == 'ThreadLocalRef':
                ntl += 1
                rep.violation('O3', 'tls-ref/%s/%s' % (b.path, s['rv']['def']), F.loc_of(s['span']), 'thread-local access')
    rep.ok('O3', 'items-scanned', '-', '%d statics, %d consts, 0 thread-local refs' % (len(ci['statics']), len(ci['consts'])))
    # ---------------- O4 / O6 over all call sites of cel_interpreter
    ncalls = 0
    mm = 0
    for b in fx.bodies.values():
        if b.crate != main_crate or b.is_derived():
            continue      # derive-generated bodies (std derives, thiserror, arbitrary) are compiler/derive output, not interpreter logic
        pv = None
        for bi, t in b.calls():
            ncalls += 1
            n = F.norm_callee(t) or ''
            if n in ('std::sync::Arc::make_mut', 'std::sync::Arc::get_mut', 'std::sync::Arc::get_mut_unchecked',
                     'std::sync::Arc::as_ptr', 'std::sync::Arc::into_raw'):
                mm += 1
                pv = pv or F.Prov(b)
                ts = pv.of_operand(t['args'][0])
                # accepted: every source is a by-value parameter (or payload thereof) of the enclosing fn
                def owned(term):
                    while term[0] in ('f', 'dc', 'ix'):
                        term = term[1]
                    if term[0] != 'param':
                        return False
                    ty = b.locals[term[1]]['ty']
                    return not ty.startswith('&')
                okk = n in ('std::sync::Arc::make_mut', 'std::sync::Arc::get_mut') and all(owned(x) for x in ts)
                rep.check(okk, 'O4', '%s/%s/%s' % (b.path, n.split('::')[-1], '|'.join(sorted(F.term_str(x) for x in ts))[:80]),
                          F.loc_of(t['span']), 'operand owned by value: %s' % ', '.join(F.term_str(x) for x in ts),
                          '%s applied to data not owned by value (%s)' % (n, ', '.join(F.term_str(x) for x in ts)))
            ext_macro = t['span']['exp'] and not t['span'].get('macro_local', False)
            for pref, what in NONDET:
                if n.startswith(pref):
                    if pref in ('std::ptr::', 'std::mem::transmute', 'std::cell::') and ext_macro:
                        break
                    rep.violation('O6', '%s/%s' % (b.path, n), F.loc_of(t['span']), 'call to %s (%s) from %s' % (n, what, b.path))
                    break
    rep.analysed(calls=ncalls)
    rep.ok('O6', 'call-sites-scanned', '-', '%d call sites of cel_interpreter matched against %d deny-list prefixes' % (ncalls, len(NONDET)))


def run_once(rep, tier, repo, here):
    rep.rule('O5', 'rustc-checked witnesses: Send+Sync, scoped sharing compiles; &Context mutation / parent mutation while borrowed / non-Send closure rejected')
    run_witnesses(rep, 'O5', 'c05', repo, here)
