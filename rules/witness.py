"""Compile-pass / compile_fail witnesses, decided by rustc (cargo +nightly test --doc).

The doctests are `no_run` or `compile_fail,Exxxx`: nothing is executed, the
verdict is the type checker's.  Results are cached per repo-tree hash."""
import os, re, json, subprocess, hashlib, shutil, fcntl
from . import facts as F

GROUP_PREFIX = {'c05': 'C05', 'c11': 'C11', 'c20': 'C20'}


def _tree_key(repo, here):
    h = hashlib.sha256()
    for root in ('interpreter', 'antlr'):
        for dp, dn, fn in os.walk(os.path.join(repo, root)):
            dn[:] = sorted(d for d in dn if d != 'target')
            for f in sorted(fn):
                p = os.path.join(dp, f)
                h.update(p.encode())
                h.update(open(p, 'rb').read())
    for f in ('Cargo.lock', 'Cargo.toml'):
        h.update(open(os.path.join(repo, f), 'rb').read())
    h.update(open(os.path.join(here, 'witness/src/lib.rs'), 'rb').read())
    h.update(open(os.path.join(here, 'witness/Cargo.toml.in'), 'rb').read())
    return h.hexdigest()[:24]


def _expected(here):
    """item name -> ('pass'|'fail', code) from the witness source"""
    src = open(os.path.join(here, 'witness/src/lib.rs')).read()
    out = {}
    for m in re.finditer(r'```(no_run|compile_fail,(E\d+))\n(?:.*?\n)*?/// ```\npub struct (\w+);', src):
        out[m.group(3)] = ('fail', m.group(2)) if m.group(2) else ('pass', None)
    return out


def all_results(repo, here):
    work = os.environ.get('VERIF_WORK', os.path.join(here, '.work'))
    os.makedirs(os.path.join(work, 'witness'), exist_ok=True)
    key = _tree_key(repo, here)
    cache = os.path.join(work, 'witness', key + '.json')
    if os.path.exists(cache):
        return json.load(open(cache))
    with open(os.path.join(work, 'witness.lock'), 'w') as lk:
        fcntl.flock(lk, fcntl.LOCK_EX)
        if os.path.exists(cache):
            return json.load(open(cache))
        rid = hashlib.sha256(os.path.abspath(repo).encode()).hexdigest()[:10]
        crate = os.path.join(work, 'witness-crate-' + rid)
        shutil.rmtree(crate, ignore_errors=True)
        os.makedirs(os.path.join(crate, 'src'))
        toml = open(os.path.join(here, 'witness/Cargo.toml.in')).read().replace('@REPO@', os.path.abspath(repo))
        open(os.path.join(crate, 'Cargo.toml'), 'w').write(toml)
        shutil.copy(os.path.join(here, 'witness/src/lib.rs'), os.path.join(crate, 'src/lib.rs'))
        shutil.copy(os.path.join(repo, 'Cargo.lock'), os.path.join(crate, 'Cargo.lock'))
        env = dict(os.environ, CARGO_NET_OFFLINE='true', CARGO_TARGET_DIR=os.path.join(work, 'witness-target-' + rid))
        p = subprocess.run(['cargo', '+nightly', 'test', '--doc', '--offline', '--', '--test-threads', '16'],
                           cwd=crate, env=env, stdout=subprocess.PIPE, stderr=subprocess.STDOUT, text=True)
        res = {}
        for m in re.finditer(r'^test src/lib\.rs - (\w+) \(line \d+\)(?: - compile fail| - compile)? \.\.\. (\w+)', p.stdout, re.M):
            res[m.group(1)] = m.group(2)
        out = {'results': res, 'rc': p.returncode, 'tail': p.stdout[-3000:]}
        shutil.rmtree(crate, ignore_errors=True)
        if os.path.abspath(repo) != '/repo':
            # scratch copies have one-off paths: their build output would pile up (320 MB each)
            shutil.rmtree(os.path.join(work, 'witness-target-' + rid), ignore_errors=True)
        if res:
            json.dump(out, open(cache, 'w'))
        # keep only a few cached results
        files = sorted((os.path.join(work, 'witness', f) for f in os.listdir(os.path.join(work, 'witness'))), key=os.path.getmtime)
        for f in files[:-6]:
            os.remove(f)
        return out


def run_witnesses(rep, rule, group, repo, here):
    exp = _expected(here)
    mine = {k: v for k, v in exp.items() if k.startswith(GROUP_PREFIX[group])}
    if not mine:
        raise F.Lost('no witnesses for group %s' % group)
    out = all_results(repo, here)
    res = out['results']
    if not res:
        rep.violation(rule, 'witness-harness', 'witness/', 'witness crate did not build or produced no results: %s' % out['tail'][-600:])
        return
    for name, (kind, code) in sorted(mine.items()):
        got = res.get(name)
        what = 'must compile' if kind == 'pass' else 'must be rejected with %s' % code
        rep.check(got == 'ok', rule, 'witness/%s' % name, 'witness/src/lib.rs',
                  '%s: confirmed by rustc' % what, '%s: rustc verdict %r' % (what, got))
