// Fact extractor for the /verif static checks.
//
// A rustc_private driver, run as RUSTC_WORKSPACE_WRAPPER under
// `cargo +nightly check`.  For the local crates named in VERIF_FACT_CRATES it
// dumps a faithful, *resolved* view of the program (items, impl tables, type
// closures, MIR bodies with resolved callees and decoded constants) as one JSON
// file per crate into VERIF_FACT_DIR.  Nothing is decided here.
#![feature(rustc_private)]

extern crate rustc_abi;
extern crate rustc_driver;
extern crate rustc_hir;
extern crate rustc_interface;
extern crate rustc_middle;
extern crate rustc_session;
extern crate rustc_span;

use rustc_driver::{Callbacks, Compilation};
use rustc_hir as hir;
use rustc_hir::def::DefKind;
use rustc_hir::def_id::{DefId, LocalDefId};
use rustc_hir::intravisit::{self, Visitor};
use rustc_interface::interface::Compiler;
use rustc_middle::mir::{self, *};
use rustc_middle::ty::print::with_no_trimmed_paths;
use rustc_middle::ty::{self, GenericArgsRef, Instance, Ty, TyCtxt, TypeVisitableExt, TypingEnv};
use rustc_span::Span;
use std::collections::{BTreeMap, HashSet};
use std::fmt::Write as _;

// ---------------------------------------------------------------- JSON writer

fn esc(s: &str) -> String {
    let mut o = String::with_capacity(s.len() + 2);
    o.push('"');
    for c in s.chars() {
        match c {
            '"' => o.push_str("\\\""),
            '\\' => o.push_str("\\\\"),
            '\n' => o.push_str("\\n"),
            '\r' => o.push_str("\\r"),
            '\t' => o.push_str("\\t"),
            c if (c as u32) < 0x20 => {
                let _ = write!(o, "\\u{:04x}", c as u32);
            }
            c => o.push(c),
        }
    }
    o.push('"');
    o
}

#[derive(Clone)]
enum J {
    Null,
    Bool(bool),
    Num(String),
    Str(String),
    Arr(Vec<J>),
    Obj(Vec<(&'static str, J)>),
}

impl J {
    fn s<T: AsRef<str>>(s: T) -> J {
        J::Str(s.as_ref().to_string())
    }
    fn n<T: std::fmt::Display>(n: T) -> J {
        J::Num(n.to_string())
    }
    fn write(&self, o: &mut String) {
        match self {
            J::Null => o.push_str("null"),
            J::Bool(b) => o.push_str(if *b { "true" } else { "false" }),
            J::Num(n) => o.push_str(n),
            J::Str(s) => o.push_str(&esc(s)),
            J::Arr(v) => {
                o.push('[');
                for (i, x) in v.iter().enumerate() {
                    if i > 0 {
                        o.push(',');
                    }
                    x.write(o);
                }
                o.push(']');
            }
            J::Obj(v) => {
                o.push('{');
                for (i, (k, x)) in v.iter().enumerate() {
                    if i > 0 {
                        o.push(',');
                    }
                    o.push_str(&esc(k));
                    o.push(':');
                    x.write(o);
                }
                o.push('}');
            }
        }
    }
}

// ---------------------------------------------------------------- helpers

struct Cx<'tcx> {
    tcx: TyCtxt<'tcx>,
    krate: String,
    cur: std::cell::Cell<Option<&'tcx Body<'tcx>>>,
}

/// print with `crate::` for local paths, then substitute the crate name, so that
/// every path in every fact file is crate-qualified
macro_rules! qp {
    ($cx:expr, $e:expr) => {{
        let s: String = rustc_middle::ty::print::with_resolve_crate_name!(with_no_trimmed_paths!($e));
        $cx.qualify(s)
    }};
}

impl<'tcx> Cx<'tcx> {
    fn qualify(&self, s: String) -> String {
        if !s.contains("crate::") {
            return s;
        }
        let mut out = String::with_capacity(s.len() + 16);
        let b = s.as_bytes();
        let mut i = 0;
        while i < b.len() {
            if s[i..].starts_with("crate::") && (i == 0 || !(b[i - 1].is_ascii_alphanumeric() || b[i - 1] == b'_')) {
                out.push_str(&self.krate);
                out.push_str("::");
                i += 7;
            } else {
                let ch = s[i..].chars().next().unwrap();
                out.push(ch);
                i += ch.len_utf8();
            }
        }
        out
    }
    fn path(&self, d: DefId) -> String {
        qp!(self, self.tcx.def_path_str(d))
    }
    fn ty(&self, t: Ty<'tcx>) -> String {
        qp!(self, t.to_string())
    }
    fn span(&self, sp: Span) -> J {
        let sm = self.tcx.sess.source_map();
        let s = sm.span_to_diagnostic_string(sp);
        J::Obj(vec![("loc", J::s(s)), ("exp", J::Bool(sp.from_expansion()))])
    }
    fn span_src(&self, sp: Span) -> J {
        // location of the outermost call site if the span comes from a macro
        let sm = self.tcx.sess.source_map();
        let root = sp.source_callsite();
        let mut v = vec![
            ("loc", J::s(sm.span_to_diagnostic_string(sp))),
            ("exp", J::Bool(sp.from_expansion())),
        ];
        if sp.from_expansion() {
            v.push(("site", J::s(sm.span_to_diagnostic_string(root))));
            if let Some(m) = sp.macro_backtrace().last() {
                v.push(("macro", J::s(m.kind.descr())));
                v.push(("macro_local", J::Bool(m.macro_def_id.map_or(false, |d| d.is_local()))));
            }
        }
        J::Obj(v)
    }

    fn place(&self, p: &Place<'tcx>) -> J {
        let mut proj = Vec::new();
        let mut pty = self.cur.get().map(|b| mir::PlaceTy::from_ty(b.local_decls[p.local].ty));
        for e in p.projection.iter() {
            let before = pty;
            if let Some(pt) = pty {
                pty = Some(pt.projection_ty(self.tcx, e));
            }
            proj.push(match e {
                ProjectionElem::Deref => J::Obj(vec![("k", J::s("Deref"))]),
                ProjectionElem::Field(f, t) => {
                    let mut fv = vec![
                        ("k", J::s("Field")),
                        ("i", J::n(f.as_usize())),
                        ("ty", J::s(self.ty(t))),
                    ];
                    if let Some(pt) = before {
                        if let ty::Adt(adt, _) = pt.ty.kind() {
                            fv.push(("adt", J::s(self.path(adt.did()))));
                            let var = match pt.variant_index {
                                Some(vi) => Some(adt.variant(vi)),
                                None if !adt.is_enum() => Some(adt.non_enum_variant()),
                                None => None,
                            };
                            if let Some(var) = var {
                                if let Some(fd) = var.fields.get(f) {
                                    fv.push(("name", J::s(fd.name.as_str())));
                                }
                                if adt.is_enum() {
                                    fv.push(("variant", J::s(var.name.as_str())));
                                }
                            }
                        } else if let ty::Closure(..) = pt.ty.kind() {
                            fv.push(("upvar", J::Bool(true)));
                        }
                    }
                    J::Obj(fv)
                }
                ProjectionElem::Index(l) => {
                    J::Obj(vec![("k", J::s("Index")), ("l", J::n(l.as_usize()))])
                }
                ProjectionElem::ConstantIndex { offset, min_length, from_end } => J::Obj(vec![
                    ("k", J::s("ConstantIndex")),
                    ("off", J::n(offset)),
                    ("min", J::n(min_length)),
                    ("from_end", J::Bool(from_end)),
                ]),
                ProjectionElem::Subslice { from, to, from_end } => J::Obj(vec![
                    ("k", J::s("Subslice")),
                    ("from", J::n(from)),
                    ("to", J::n(to)),
                    ("from_end", J::Bool(from_end)),
                ]),
                ProjectionElem::Downcast(name, v) => J::Obj(vec![
                    ("k", J::s("Downcast")),
                    ("v", J::n(v.as_usize())),
                    ("name", name.map_or(J::Null, |s| J::s(s.as_str()))),
                ]),
                other => J::Obj(vec![("k", J::s(format!("{:?}", other)))]),
            });
        }
        J::Obj(vec![("l", J::n(p.local.as_usize())), ("p", J::Arr(proj))])
    }

    fn fn_def_json(&self, def: DefId, args: GenericArgsRef<'tcx>, tenv: TypingEnv<'tcx>) -> Vec<(&'static str, J)> {
        let mut v: Vec<(&'static str, J)> = vec![("path", J::s(self.path(def)))];
        v.push(("args", J::Arr(args.iter().map(|a| J::s(qp!(self, a.to_string()))).collect())));
        if let Some(tr) = self.tcx.trait_of_assoc(def) {
            v.push(("trait", J::s(self.path(tr))));
        }
        // try to resolve (trait method -> impl method, closure call -> closure)
        let mut resolved: Option<DefId> = None;
        if !args.has_escaping_bound_vars() {
            if let Ok(Some(inst)) = Instance::try_resolve(self.tcx, tenv, def, args) {
                let rd = inst.def_id();
                resolved = Some(rd);
                v.push(("res", J::s(self.path(rd))));
                v.push(("res_kind", J::s(match inst.def {
                    ty::InstanceKind::Item(_) => "Item",
                    ty::InstanceKind::Virtual(..) => "Virtual",
                    ty::InstanceKind::Intrinsic(_) => "Intrinsic",
                    ty::InstanceKind::ClosureOnceShim { .. } => "ClosureOnceShim",
                    ty::InstanceKind::FnPtrShim(..) => "FnPtrShim",
                    ty::InstanceKind::DropGlue(..) => "DropGlue",
                    ty::InstanceKind::CloneShim(..) => "CloneShim",
                    ty::InstanceKind::ReifyShim(..) => "ReifyShim",
                    _ => "Other",
                })));
                v.push(("res_local", J::Bool(rd.is_local())));
                if let ty::InstanceKind::FnPtrShim(_, t) = inst.def {
                    v.push(("shim_ty", J::s(self.ty(t))));
                }
                if let ty::InstanceKind::ClosureOnceShim { call_once, .. } = inst.def {
                    v.push(("shim_of", J::s(self.path(call_once))));
                }
            }
        }
        let _ = resolved;
        v.push(("local", J::Bool(def.is_local())));
        v
    }

    fn constant(&self, c: &ConstOperand<'tcx>, tenv: TypingEnv<'tcx>) -> J {
        let tcx = self.tcx;
        let ty = c.const_.ty();
        let mut v: Vec<(&'static str, J)> = vec![
            ("k", J::s("Const")),
            ("ty", J::s(self.ty(ty))),
            ("text", J::s(qp!(self, format!("{}", c.const_)))),
        ];
        // named constant?
        match c.const_ {
            mir::Const::Unevaluated(u, _) => {
                v.push(("def", J::s(self.path(u.def))));
                if let Some(pi) = u.promoted {
                    v.push(("promoted", J::n(pi.as_usize())));
                }
            }
            _ => {}
        }
        if let ty::FnDef(def, args) = ty.kind() {
            v.push(("fn", J::Obj(self.fn_def_json(*def, args, tenv))));
            return J::Obj(v);
        }
        if let ty::Closure(def, _) = ty.kind() {
            v.push(("closure", J::s(self.path(*def))));
            return J::Obj(v);
        }
        // evaluate
        if let Ok(val) = c.const_.eval(tcx, tenv, c.span) {
            match ty.kind() {
                ty::Bool | ty::Char | ty::Int(_) | ty::Uint(_) | ty::Float(_) => {
                    if let Some(si) = val.try_to_scalar_int() {
                        let size = si.size();
                        let bits = si.to_bits(size);
                        match ty.kind() {
                            ty::Bool => v.push(("val", J::Bool(bits != 0))),
                            ty::Char => {
                                let ch = char::from_u32(bits as u32).unwrap_or('\u{fffd}');
                                v.push(("val", J::s(ch.to_string())));
                                v.push(("cp", J::n(bits)));
                            }
                            ty::Int(_) => {
                                let sh = 128 - size.bits();
                                let sv = ((bits as i128) << sh) >> sh;
                                v.push(("val", J::n(sv)));
                            }
                            ty::Uint(_) => v.push(("val", J::n(bits))),
                            ty::Float(_) => {
                                let f = if size.bits() == 64 {
                                    f64::from_bits(bits as u64)
                                } else if size.bits() == 32 {
                                    f32::from_bits(bits as u32) as f64
                                } else {
                                    f64::NAN
                                };
                                v.push(("fbits", J::n(bits)));
                                if f.is_finite() {
                                    v.push(("val", J::n(format!("{:e}", f))));
                                } else {
                                    v.push(("val", J::s(format!("{}", f))));
                                }
                            }
                            _ => {}
                        }
                    }
                }
                ty::Ref(_, inner, _) if inner.is_str() => {
                    if let Some(bytes) = slice_bytes(tcx, &val) {
                        v.push(("val", J::s(String::from_utf8_lossy(bytes))));
                    }
                }
                ty::Ref(_, inner, _) => {
                    if let ty::Slice(e) = inner.kind() {
                        if *e == tcx.types.u8 {
                            if let Some(bytes) = slice_bytes(tcx, &val) {
                                v.push(("bytes", J::Arr(bytes.iter().map(|b| J::n(*b)).collect())));
                            }
                        }
                    }
                }
                _ => {}
            }
        }
        J::Obj(v)
    }

    fn operand(&self, o: &Operand<'tcx>, tenv: TypingEnv<'tcx>) -> J {
        match o {
            Operand::Copy(p) => {
                let mut j = vec![("k", J::s("Copy"))];
                j.push(("place", self.place(p)));
                J::Obj(j)
            }
            Operand::Move(p) => {
                let mut j = vec![("k", J::s("Move"))];
                j.push(("place", self.place(p)));
                J::Obj(j)
            }
            Operand::Constant(c) => self.constant(c, tenv),
            #[allow(unreachable_patterns)]
            other => J::Obj(vec![("k", J::s("Other")), ("text", J::s(format!("{:?}", other)))]),
        }
    }

    fn rvalue(&self, rv: &Rvalue<'tcx>, body: &Body<'tcx>, tenv: TypingEnv<'tcx>) -> J {
        let tcx = self.tcx;
        match rv {
            Rvalue::Use(o, ..) => J::Obj(vec![("k", J::s("Use")), ("op", self.operand(o, tenv))]),
            Rvalue::Repeat(o, n) => J::Obj(vec![
                ("k", J::s("Repeat")),
                ("op", self.operand(o, tenv)),
                ("n", J::s(format!("{}", n))),
            ]),
            Rvalue::Ref(_, bk, p) => J::Obj(vec![
                ("k", J::s("Ref")),
                ("mut", J::Bool(matches!(bk, BorrowKind::Mut { .. }))),
                ("place", self.place(p)),
            ]),
            Rvalue::RawPtr(kind, p) => J::Obj(vec![
                ("k", J::s("RawPtr")),
                ("kind", J::s(format!("{:?}", kind))),
                ("place", self.place(p)),
            ]),
            Rvalue::Cast(kind, o, t) => {
                let from = o.ty(&body.local_decls, tcx);
                let ks = match kind {
                    CastKind::IntToInt => "IntToInt".to_string(),
                    CastKind::FloatToInt => "FloatToInt".to_string(),
                    CastKind::FloatToFloat => "FloatToFloat".to_string(),
                    CastKind::IntToFloat => "IntToFloat".to_string(),
                    CastKind::PtrToPtr => "PtrToPtr".to_string(),
                    CastKind::Transmute => "Transmute".to_string(),
                    CastKind::PointerCoercion(c, _) => format!("PointerCoercion({:?})", c),
                    other => format!("{:?}", other),
                };
                J::Obj(vec![
                    ("k", J::s("Cast")),
                    ("kind", J::s(ks)),
                    ("op", self.operand(o, tenv)),
                    ("from", J::s(self.ty(from))),
                    ("to", J::s(self.ty(*t))),
                ])
            }
            Rvalue::BinaryOp(op, ops) => {
                let lt = ops.0.ty(&body.local_decls, tcx);
                J::Obj(vec![
                    ("k", J::s("BinaryOp")),
                    ("op", J::s(format!("{:?}", op))),
                    ("l", self.operand(&ops.0, tenv)),
                    ("r", self.operand(&ops.1, tenv)),
                    ("lty", J::s(self.ty(lt))),
                ])
            }
            Rvalue::UnaryOp(op, o) => {
                let t = o.ty(&body.local_decls, tcx);
                J::Obj(vec![
                    ("k", J::s("UnaryOp")),
                    ("op", J::s(format!("{:?}", op))),
                    ("a", self.operand(o, tenv)),
                    ("aty", J::s(self.ty(t))),
                ])
            }
            Rvalue::Discriminant(p) => {
                J::Obj(vec![("k", J::s("Discriminant")), ("place", self.place(p))])
            }
            Rvalue::Aggregate(kind, ops) => {
                let mut v = vec![("k", J::s("Aggregate"))];
                match &**kind {
                    AggregateKind::Array(t) => {
                        v.push(("agg", J::s("Array")));
                        v.push(("ty", J::s(self.ty(*t))));
                    }
                    AggregateKind::Tuple => v.push(("agg", J::s("Tuple"))),
                    AggregateKind::Adt(def, variant, args, _, field) => {
                        v.push(("agg", J::s("Adt")));
                        v.push(("adt", J::s(self.path(*def))));
                        let adt = tcx.adt_def(*def);
                        let var = adt.variant(*variant);
                        v.push(("variant", J::s(var.name.as_str())));
                        v.push(("vidx", J::n(variant.as_usize())));
                        v.push((
                            "fields",
                            J::Arr(var.fields.iter().map(|f| J::s(f.name.as_str())).collect()),
                        ));
                        v.push(("targs", J::Arr(args.iter().map(|a| J::s(qp!(self, a.to_string()))).collect())));
                        if let Some(f) = field {
                            v.push(("union_field", J::n(f.as_usize())));
                        }
                    }
                    AggregateKind::Closure(def, _) => {
                        v.push(("agg", J::s("Closure")));
                        v.push(("closure", J::s(self.path(*def))));
                    }
                    other => {
                        v.push(("agg", J::s("Other")));
                        v.push(("text", J::s(format!("{:?}", other))));
                    }
                }
                v.push(("ops", J::Arr(ops.iter().map(|o| self.operand(o, tenv)).collect())));
                J::Obj(v)
            }
            Rvalue::CopyForDeref(p) => {
                J::Obj(vec![("k", J::s("CopyForDeref")), ("place", self.place(p))])
            }
            Rvalue::ThreadLocalRef(d) => {
                J::Obj(vec![("k", J::s("ThreadLocalRef")), ("def", J::s(self.path(*d)))])
            }
            other => J::Obj(vec![("k", J::s("Other")), ("text", J::s(format!("{:?}", other)))]),
        }
    }

    fn bodies(&self, did: LocalDefId) -> Vec<J> {
        let tcx = self.tcx;
        let def_id = did.to_def_id();
        let kind = tcx.def_kind(def_id);
        let mut out = Vec::new();
        let body: &'tcx Body<'tcx> = match kind {
            DefKind::Fn | DefKind::AssocFn | DefKind::Closure => {
                if !tcx.is_mir_available(def_id) {
                    return out;
                }
                tcx.optimized_mir(def_id)
            }
            DefKind::Const { .. } | DefKind::AssocConst { .. } | DefKind::Static { .. } | DefKind::AnonConst | DefKind::InlineConst => {
                if !tcx.is_mir_available(def_id) {
                    return out;
                }
                tcx.mir_for_ctfe(def_id)
            }
            _ => return out,
        };
        out.push(self.body_json(def_id, kind, body, None));
        if matches!(kind, DefKind::Fn | DefKind::AssocFn | DefKind::Closure) {
            for (i, pb) in tcx.promoted_mir(def_id).iter_enumerated() {
                out.push(self.body_json(def_id, kind, pb, Some(i.as_usize())));
            }
        }
        out
    }

    fn body_json(&self, def_id: DefId, kind: DefKind, body: &'tcx Body<'tcx>, promoted: Option<usize>) -> J {
        let tcx = self.tcx;
        let tenv = TypingEnv::post_analysis(tcx, def_id);
        // SAFETY-free lifetime juggling: bodies handed out by the query system live for 'tcx
        self.cur.set(Some(body));
        let mut v: Vec<(&'static str, J)> = Vec::new();
        if let Some(i) = promoted {
            v.push(("path", J::s(format!("{}::promoted[{}]", self.path(def_id), i))));
            v.push(("kind", J::s("Promoted")));
            v.push(("promoted_of", J::s(self.path(def_id))));
        } else {
            v.push(("path", J::s(self.path(def_id))));
            v.push(("kind", J::s(format!("{:?}", kind))));
        }
        v.push(("span", self.span_src(tcx.def_span(def_id))));
        if promoted.is_some() {
        } else if matches!(kind, DefKind::Closure | DefKind::AnonConst | DefKind::InlineConst) {
            let parent = tcx.parent(def_id);
            v.push(("parent", J::s(self.path(parent))));
        } else if let Some(p) = tcx.opt_parent(def_id) {
            // impl parent: record trait + self type for methods
            if matches!(tcx.def_kind(p), DefKind::Impl { .. }) {
                let selfty = tcx.type_of(p).instantiate_identity().skip_norm_wip();
                v.push(("impl_self", J::s(self.ty(selfty))));
                if let Some(tr) = tcx.impl_opt_trait_ref(p) {
                    let tr = tr.instantiate_identity().skip_norm_wip();
                    v.push(("impl_trait", J::s(self.path(tr.def_id))));
                    v.push(("impl_trait_ref", J::s(qp!(self, tr.to_string()))));
                }
            }
        }
        if promoted.is_none() && matches!(kind, DefKind::Fn | DefKind::AssocFn) {
            v.push(("vis", J::s(format!("{:?}", tcx.visibility(def_id)))));
            let sig = tcx.fn_sig(def_id).instantiate_identity().skip_norm_wip();
            v.push(("sig", J::s(qp!(self, sig.to_string()))));
            v.push(("unsafe", J::Bool(!sig.safety().is_safe())));
        }
        v.push(("argc", J::n(body.arg_count)));
        // locals
        let mut names: BTreeMap<usize, String> = BTreeMap::new();
        let mut dbg = Vec::new();
        for vdi in body.var_debug_info.iter() {
            match &vdi.value {
                VarDebugInfoContents::Place(p) => {
                    if p.projection.is_empty() {
                        names.entry(p.local.as_usize()).or_insert_with(|| vdi.name.to_string());
                    }
                    dbg.push(J::Obj(vec![("name", J::s(vdi.name.as_str())), ("place", self.place(p))]));
                }
                _ => {}
            }
        }
        v.push(("debug", J::Arr(dbg)));
        let mut locals = Vec::new();
        for (l, d) in body.local_decls.iter_enumerated() {
            let mut lv = vec![("ty", J::s(self.ty(d.ty)))];
            if let Some(n) = names.get(&l.as_usize()) {
                lv.push(("name", J::s(n)));
            }
            locals.push(J::Obj(lv));
        }
        v.push(("locals", J::Arr(locals)));
        // blocks
        let mut blocks = Vec::new();
        for (_bb, data) in body.basic_blocks.iter_enumerated() {
            let mut stmts = Vec::new();
            for st in data.statements.iter() {
                match &st.kind {
                    StatementKind::Assign(b) => {
                        let (p, rv) = &**b;
                        stmts.push(J::Obj(vec![
                            ("k", J::s("Assign")),
                            ("place", self.place(p)),
                            ("rv", self.rvalue(rv, body, tenv)),
                            ("span", self.span(st.source_info.span)),
                        ]));
                    }
                    StatementKind::SetDiscriminant { place, variant_index } => {
                        stmts.push(J::Obj(vec![
                            ("k", J::s("SetDiscriminant")),
                            ("place", self.place(place)),
                            ("v", J::n(variant_index.as_usize())),
                        ]));
                    }
                    StatementKind::Intrinsic(i) => {
                        stmts.push(J::Obj(vec![("k", J::s("Intrinsic")), ("text", J::s(format!("{:?}", i)))]));
                    }
                    _ => {}
                }
            }
            let term = data.terminator();
            let tspan = self.span_src(term.source_info.span);
            let t = match &term.kind {
                TerminatorKind::Goto { target } => {
                    J::Obj(vec![("k", J::s("Goto")), ("target", J::n(target.as_usize()))])
                }
                TerminatorKind::SwitchInt { discr, targets } => {
                    let dty = discr.ty(&body.local_decls, tcx);
                    let mut arms = Vec::new();
                    for (val, bb) in targets.iter() {
                        arms.push(J::Arr(vec![J::n(val), J::n(bb.as_usize())]));
                    }
                    J::Obj(vec![
                        ("k", J::s("SwitchInt")),
                        ("discr", self.operand(discr, tenv)),
                        ("dty", J::s(self.ty(dty))),
                        ("arms", J::Arr(arms)),
                        ("otherwise", J::n(targets.otherwise().as_usize())),
                        ("span", tspan),
                    ])
                }
                TerminatorKind::Return => J::Obj(vec![("k", J::s("Return")), ("span", tspan)]),
                TerminatorKind::Unreachable => J::Obj(vec![("k", J::s("Unreachable"))]),
                TerminatorKind::UnwindResume => J::Obj(vec![("k", J::s("UnwindResume"))]),
                TerminatorKind::UnwindTerminate(_) => J::Obj(vec![("k", J::s("UnwindTerminate"))]),
                TerminatorKind::Drop { place, target, unwind, .. } => J::Obj(vec![
                    ("k", J::s("Drop")),
                    ("place", self.place(place)),
                    ("target", J::n(target.as_usize())),
                    ("unwind", unwind_json(unwind)),
                ]),
                TerminatorKind::Call { func, args, destination, target, unwind, fn_span, .. } => {
                    let mut cv: Vec<(&'static str, J)> = vec![("k", J::s("Call"))];
                    let fty = func.ty(&body.local_decls, tcx);
                    match fty.kind() {
                        ty::FnDef(d, ga) => {
                            cv.push(("callee", J::Obj(self.fn_def_json(*d, ga, tenv))));
                        }
                        _ => {
                            cv.push(("callee_ty", J::s(self.ty(fty))));
                            cv.push(("func", self.operand(func, tenv)));
                        }
                    }
                    cv.push(("args", J::Arr(args.iter().map(|a| self.operand(&a.node, tenv)).collect())));
                    cv.push((
                        "arg_tys",
                        J::Arr(args.iter().map(|a| J::s(self.ty(a.node.ty(&body.local_decls, tcx)))).collect()),
                    ));
                    cv.push(("dest", self.place(destination)));
                    cv.push(("target", target.map_or(J::Null, |t| J::n(t.as_usize()))));
                    cv.push(("unwind", unwind_json(unwind)));
                    cv.push(("span", tspan));
                    cv.push(("fn_span", self.span(*fn_span)));
                    J::Obj(cv)
                }
                TerminatorKind::Assert { cond, expected, msg, target, unwind } => {
                    let (mk, ops): (String, Vec<J>) = match &**msg {
                        AssertKind::BoundsCheck { len, index } => (
                            "BoundsCheck".into(),
                            vec![self.operand(len, tenv), self.operand(index, tenv)],
                        ),
                        AssertKind::Overflow(op, a, b) => (
                            format!("Overflow({:?})", op),
                            vec![self.operand(a, tenv), self.operand(b, tenv)],
                        ),
                        AssertKind::OverflowNeg(a) => ("OverflowNeg".into(), vec![self.operand(a, tenv)]),
                        AssertKind::DivisionByZero(a) => ("DivisionByZero".into(), vec![self.operand(a, tenv)]),
                        AssertKind::RemainderByZero(a) => ("RemainderByZero".into(), vec![self.operand(a, tenv)]),
                        AssertKind::MisalignedPointerDereference { .. } => ("MisalignedPointerDereference".into(), vec![]),
                        AssertKind::NullPointerDereference => ("NullPointerDereference".into(), vec![]),
                        other => (format!("{:?}", other).chars().take(60).collect(), vec![]),
                    };
                    J::Obj(vec![
                        ("k", J::s("Assert")),
                        ("cond", self.operand(cond, tenv)),
                        ("expected", J::Bool(*expected)),
                        ("msg", J::s(mk)),
                        ("ops", J::Arr(ops)),
                        ("target", J::n(target.as_usize())),
                        ("unwind", unwind_json(unwind)),
                        ("span", tspan),
                    ])
                }
                TerminatorKind::FalseEdge { real_target, .. } => {
                    J::Obj(vec![("k", J::s("Goto")), ("target", J::n(real_target.as_usize()))])
                }
                TerminatorKind::FalseUnwind { real_target, .. } => {
                    J::Obj(vec![("k", J::s("Goto")), ("target", J::n(real_target.as_usize()))])
                }
                other => J::Obj(vec![("k", J::s("Other")), ("text", J::s(format!("{:?}", other)))]),
            };
            blocks.push(J::Obj(vec![
                ("cleanup", J::Bool(data.is_cleanup)),
                ("stmts", J::Arr(stmts)),
                ("term", t),
            ]));
        }
        v.push(("blocks", J::Arr(blocks)));
        J::Obj(v)
    }

    // ------------------------------------------------------------ type closure

    fn closure_walk(
        &self,
        t: Ty<'tcx>,
        chain: &mut Vec<String>,
        seen: &mut HashSet<Ty<'tcx>>,
        out: &mut Vec<J>,
        tenv: TypingEnv<'tcx>,
    ) {
        let tcx = self.tcx;
        if !seen.insert(t) {
            return;
        }
        if chain.len() > 60 {
            out.push(J::Obj(vec![("kind", J::s("DepthLimit")), ("ty", J::s(self.ty(t)))]));
            return;
        }
        let report = |kind: &str, extra: Vec<(&'static str, J)>, chain: &Vec<String>, out: &mut Vec<J>| {
            let mut v = vec![("kind", J::s(kind)), ("ty", J::s(self.ty(t)))];
            v.extend(extra);
            v.push(("chain", J::Arr(chain.iter().map(J::s).collect())));
            out.push(J::Obj(v));
        };
        match t.kind() {
            ty::Adt(adt, args) => {
                let p = self.path(adt.did());
                chain.push(self.ty(t));
                if adt.is_unsafe_cell() {
                    report("UnsafeCell", vec![], chain, out);
                } else if p == "alloc::sync::Arc" || p == "std::sync::Arc" {
                    report("Arc", vec![], chain, out);
                    // container: descend into the payload only (the counters are Arc's contract)
                    for a in args.iter() {
                        if let Some(at) = a.as_type() {
                            self.closure_walk(at, chain, seen, out, tenv);
                        }
                    }
                    chain.pop();
                    return;
                } else if p == "alloc::rc::Rc" || p == "std::rc::Rc" || p == "alloc::rc::Weak" {
                    report("Rc", vec![], chain, out);
                }
                if adt.is_union() {
                    report("Union", vec![], chain, out);
                }
                for var in adt.variants().iter() {
                    for f in var.fields.iter() {
                        let ft = f.ty(tcx, args);
                        let ft = tcx.try_normalize_erasing_regions(tenv, ty::Unnormalized::new_wip(ft)).unwrap_or(ft);
                        self.closure_walk(ft, chain, seen, out, tenv);
                    }
                }
                for a in args.iter() {
                    if let Some(at) = a.as_type() {
                        self.closure_walk(at, chain, seen, out, tenv);
                    }
                }
                chain.pop();
            }
            ty::Ref(_, inner, m) => {
                if m.is_mut() {
                    report("MutRef", vec![], chain, out);
                }
                self.closure_walk(*inner, chain, seen, out, tenv);
            }
            ty::RawPtr(inner, _) => {
                self.closure_walk(*inner, chain, seen, out, tenv);
            }
            ty::Array(inner, _) | ty::Slice(inner) | ty::Pat(inner, _) => self.closure_walk(*inner, chain, seen, out, tenv),
            ty::Tuple(ts) => {
                for x in ts.iter() {
                    self.closure_walk(x, chain, seen, out, tenv);
                }
            }
            ty::Dynamic(preds, _) => {
                let mut autos = Vec::new();
                for d in preds.auto_traits() {
                    autos.push(J::s(self.path(d)));
                }
                let principal = preds.principal_def_id().map_or(J::Null, |d| J::s(self.path(d)));
                report("Dyn", vec![("principal", principal), ("auto", J::Arr(autos))], chain, out);
            }
            ty::FnPtr(..) => report("FnPtr", vec![], chain, out),
            ty::Param(_) => report("Param", vec![], chain, out),
            ty::Alias(..) => report("Alias", vec![], chain, out),
            ty::Closure(..) => report("ClosureTy", vec![], chain, out),
            ty::Bool | ty::Char | ty::Int(_) | ty::Uint(_) | ty::Float(_) | ty::Str | ty::Never | ty::FnDef(..) => {}
            _ => report("OtherTy", vec![], chain, out),
        }
    }
}

fn slice_bytes<'tcx>(tcx: TyCtxt<'tcx>, v: &mir::ConstValue) -> Option<&'tcx [u8]> {
    match v {
        mir::ConstValue::Slice { .. } => v.try_get_slice_bytes_for_diagnostics(tcx),
        _ => None,
    }
}

fn unwind_json(u: &UnwindAction) -> J {
    match u {
        UnwindAction::Cleanup(bb) => J::n(bb.as_usize()),
        _ => J::Null,
    }
}

// ---------------------------------------------------------------- unsafe finder (HIR)

struct UnsafeFinder<'a, 'tcx> {
    cx: &'a Cx<'tcx>,
    owner: String,
    out: Vec<J>,
}

impl<'a, 'tcx> Visitor<'tcx> for UnsafeFinder<'a, 'tcx> {
    fn visit_block(&mut self, b: &'tcx hir::Block<'tcx>) {
        if let hir::BlockCheckMode::UnsafeBlock(src) = b.rules {
            self.out.push(J::Obj(vec![
                ("kind", J::s("block")),
                ("owner", J::s(&self.owner)),
                ("user", J::Bool(matches!(src, hir::UnsafeSource::UserProvided))),
                ("span", self.cx.span_src(b.span)),
            ]));
        }
        intravisit::walk_block(self, b);
    }
}

// ---------------------------------------------------------------- callbacks

struct Dump;

impl Callbacks for Dump {
    fn after_analysis<'tcx>(&mut self, _c: &Compiler, tcx: TyCtxt<'tcx>) -> Compilation {
        let krate = tcx.crate_name(rustc_hir::def_id::LOCAL_CRATE).to_string();
        let wanted = std::env::var("VERIF_FACT_CRATES").unwrap_or_default();
        if !wanted.split(',').any(|w| w == krate) {
            return Compilation::Continue;
        }
        let dir = match std::env::var("VERIF_FACT_DIR") {
            Ok(d) => d,
            Err(_) => return Compilation::Continue,
        };
        let cx = Cx { tcx, krate: krate.clone(), cur: std::cell::Cell::new(None) };
        let mut top: Vec<(&'static str, J)> = Vec::new();
        top.push(("crate", J::s(&krate)));
        // cfg features
        let mut feats = Vec::new();
        for (name, val) in tcx.sess.config.iter() {
            if name.as_str() == "feature" {
                if let Some(v) = val {
                    feats.push(v.to_string());
                }
            }
        }
        feats.sort();
        top.push(("features", J::Arr(feats.iter().map(J::s).collect())));
        let crate_types: Vec<String> = tcx.crate_types().iter().map(|c| format!("{:?}", c)).collect();
        top.push(("crate_types", J::Arr(crate_types.iter().map(J::s).collect())));
        let is_test = tcx.sess.is_test_crate();
        top.push(("test", J::Bool(is_test)));

        // ---- items
        let mut adts = Vec::new();
        let mut impls = Vec::new();
        let mut statics = Vec::new();
        let mut unsafes = Vec::new();
        let mut consts = Vec::new();
        let mut roots: Vec<(String, Ty<'tcx>, DefId)> = Vec::new();
        let items = tcx.hir_crate_items(());
        for id in items.free_items() {
            let item = tcx.hir_item(id);
            let did = item.owner_id.to_def_id();
            match item.kind {
                hir::ItemKind::Struct(..) | hir::ItemKind::Enum(..) | hir::ItemKind::Union(..) => {
                    let adt = tcx.adt_def(did);
                    let mut vars = Vec::new();
                    for (vi, var) in adt.variants().iter_enumerated() {
                        let mut fs = Vec::new();
                        for f in var.fields.iter() {
                            let fty = tcx.type_of(f.did).instantiate_identity().skip_norm_wip();
                            fs.push(J::Obj(vec![("name", J::s(f.name.as_str())), ("ty", J::s(cx.ty(fty)))]));
                        }
                        vars.push(J::Obj(vec![
                            ("name", J::s(var.name.as_str())),
                            ("idx", J::n(vi.as_usize())),
                            ("discr", if adt.is_enum() { J::s(format!("{}", adt.discriminant_for_variant(tcx, vi).val)) } else { J::Null }),
                            ("fields", J::Arr(fs)),
                        ]));
                    }
                    let generics = tcx.generics_of(did);
                    adts.push(J::Obj(vec![
                        ("path", J::s(cx.path(did))),
                        ("kind", J::s(if adt.is_enum() { "enum" } else if adt.is_union() { "union" } else { "struct" })),
                        ("generics", J::n(generics.own_params.len())),
                        ("variants", J::Arr(vars)),
                        ("span", cx.span_src(item.span)),
                    ]));
                    let t = tcx.type_of(did).instantiate_identity().skip_norm_wip();
                    roots.push((cx.path(did), t, did));
                }
                hir::ItemKind::Impl(imp) => {
                    let selfty = tcx.type_of(did).instantiate_identity().skip_norm_wip();
                    let mut v = vec![("self", J::s(cx.ty(selfty))), ("span", cx.span_src(item.span))];
                    if let Some(tr) = tcx.impl_opt_trait_ref(did) {
                        let tr = tr.instantiate_identity().skip_norm_wip();
                        v.push(("trait", J::s(cx.path(tr.def_id))));
                        v.push(("trait_ref", J::s(qp!(cx, tr.to_string()))));
                        let header = tcx.impl_trait_header(did);
                        v.push(("unsafe", J::Bool(!header.safety.is_safe())));
                        v.push(("negative", J::Bool(matches!(header.polarity, ty::ImplPolarity::Negative))));
                        // which trait items does the trait have, which are provided here
                        let mut all = Vec::new();
                        for ai in tcx.associated_items(tr.def_id).in_definition_order() {
                            all.push(J::Obj(vec![
                                ("name", J::s(ai.name().as_str())),
                                ("has_default", J::Bool(ai.defaultness(tcx).has_value())),
                            ]));
                        }
                        v.push(("trait_items", J::Arr(all)));
                    }
                    let mut provided = Vec::new();
                    for ai in tcx.associated_items(did).in_definition_order() {
                        provided.push(J::s(ai.name().as_str()));
                    }
                    v.push(("items", J::Arr(provided)));
                    v.push(("generics", J::n(tcx.generics_of(did).own_params.len())));
                    let _ = imp;
                    impls.push(J::Obj(v));
                }
                hir::ItemKind::Static(m, ..) => {
                    let t = tcx.type_of(did).instantiate_identity().skip_norm_wip();
                    let tenv = TypingEnv::post_analysis(tcx, did);
                    statics.push(J::Obj(vec![
                        ("path", J::s(cx.path(did))),
                        ("mut", J::Bool(m.is_mut())),
                        ("ty", J::s(cx.ty(t))),
                        ("freeze", J::Bool(t.is_freeze(tcx, tenv))),
                        ("span", cx.span_src(item.span)),
                    ]));
                }
                hir::ItemKind::Const(..) => {
                    let t = tcx.type_of(did).instantiate_identity().skip_norm_wip();
                    let mut v = vec![("path", J::s(cx.path(did))), ("ty", J::s(cx.ty(t))), ("span", cx.span_src(item.span))];
                    if tcx.generics_of(did).is_empty() {
                        if let Ok(val) = tcx.const_eval_poly(did) {
                            match t.kind() {
                                ty::Ref(_, inner, _) if inner.is_str() => {
                                    if let Some(b) = slice_bytes(tcx, &val) {
                                        v.push(("val", J::s(String::from_utf8_lossy(b))));
                                    }
                                }
                                ty::Int(_) | ty::Uint(_) | ty::Bool | ty::Char => {
                                    if let Some(si) = val.try_to_scalar_int() {
                                        let size = si.size();
                                        let bits = si.to_bits(size);
                                        if let ty::Int(_) = t.kind() {
                                            let sh = 128 - size.bits();
                                            v.push(("val", J::n(((bits as i128) << sh) >> sh)));
                                        } else {
                                            v.push(("val", J::n(bits)));
                                        }
                                    }
                                }
                                _ => {}
                            }
                        }
                    }
                    consts.push(J::Obj(v));
                }
                hir::ItemKind::Fn { .. } => {}
                _ => {}
            }
        }
        // thread_local! expands to a const/static + fn; the MIR ThreadLocalRef and the
        // `std::thread::LocalKey` type in statics/consts reveal it (rule side).

        // unsafe fns / impls / blocks over all body owners
        let mut bodies = Vec::new();
        let mut n_blocks = 0usize;
        let mut n_calls = 0usize;
        for did in tcx.hir_body_owners() {
            let def_id = did.to_def_id();
            let kind = tcx.def_kind(def_id);
            // HIR unsafe blocks
            {
                let b = tcx.hir_body_owned_by(did);
                let mut f = UnsafeFinder { cx: &cx, owner: cx.path(def_id), out: Vec::new() };
                f.visit_expr(b.value);
                unsafes.extend(f.out);
            }
            if matches!(kind, DefKind::Fn | DefKind::AssocFn) {
                let sig = tcx.fn_sig(def_id).instantiate_identity().skip_norm_wip();
                if !sig.safety().is_safe() {
                    unsafes.push(J::Obj(vec![
                        ("kind", J::s("fn")),
                        ("owner", J::s(cx.path(def_id))),
                        ("user", J::Bool(!tcx.def_span(def_id).from_expansion())),
                        ("span", cx.span_src(tcx.def_span(def_id))),
                    ]));
                }
            }
            for bj in cx.bodies(did) {
                let J::Obj(b) = bj else { continue };
                for (k, val) in b.iter() {
                    if *k == "blocks" {
                        if let J::Arr(bl) = val {
                            n_blocks += bl.len();
                            for blk in bl {
                                if let J::Obj(f) = blk {
                                    for (kk, t) in f {
                                        if *kk == "term" {
                                            if let J::Obj(tf) = t {
                                                if let Some((_, J::Str(s))) = tf.first() {
                                                    if s == "Call" {
                                                        n_calls += 1;
                                                    }
                                                }
                                            }
                                        }
                                    }
                                }
                            }
                        }
                    }
                }
                bodies.push(J::Obj(b));
            }
        }
        // type closures of every local ADT (rule side picks the roots it needs)
        let mut closures = Vec::new();
        for (name, t, did) in roots.iter() {
            let tenv = TypingEnv::post_analysis(tcx, *did);
            let mut out = Vec::new();
            let mut chain = Vec::new();
            let mut seen = HashSet::new();
            cx.closure_walk(*t, &mut chain, &mut seen, &mut out, tenv);
            closures.push(J::Obj(vec![("root", J::s(name)), ("visited", J::n(seen.len())), ("found", J::Arr(out))]));
        }

        let nb = bodies.len();
        top.push(("adts", J::Arr(adts)));
        top.push(("impls", J::Arr(impls)));
        top.push(("statics", J::Arr(statics)));
        top.push(("consts", J::Arr(consts)));
        top.push(("unsafe", J::Arr(unsafes)));
        top.push(("type_closure", J::Arr(closures)));
        top.push(("bodies", J::Arr(bodies)));
        top.push(("counts", J::Obj(vec![("bodies", J::n(nb)), ("blocks", J::n(n_blocks)), ("calls", J::n(n_calls))])));

        let mut s = String::new();
        J::Obj(top).write(&mut s);
        let suffix = if is_test { "-test" } else { "" };
        let kinds = crate_types.join("_");
        let file = format!("{}/{}{}-{}.json", dir, krate, suffix, kinds);
        let tmp = format!("{}.tmp{}", file, std::process::id());
        std::fs::write(&tmp, s).expect("write facts");
        std::fs::rename(&tmp, &file).expect("rename facts");
        eprintln!("[cel-facts-driver] {}: {} bodies, {} blocks, {} call sites -> {}", krate, nb, n_blocks, n_calls, file);
        Compilation::Continue
    }
}

fn main() {
    // RUSTC_WORKSPACE_WRAPPER: argv = [driver, rustc, args...]
    let mut args: Vec<String> = std::env::args().collect();
    if args.len() > 1 && (args[1].ends_with("rustc") || args[1].contains("/rustc")) {
        args.remove(1);
    }
    let mut cb = Dump;
    rustc_driver::run_compiler(&args, &mut cb);
}
