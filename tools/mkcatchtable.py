#!/usr/bin/env python3
"""Regenerates the 'which checks catch which changes' tables of DESIGN.md (between the GENERATED markers)
from mutants/results.json and seeded/*/meta.json."""
import json, os, glob, re
HERE = os.path.dirname(os.path.dirname(os.path.abspath(__file__)))
res = json.load(open(os.path.join(HERE, 'mutants/results.json')))
lines = []
lines.append('| Mutant (mutants/*/…) | Kind | Property checks run → verdict (first rule instances) | Tests¹ |')
lines.append('|---|---|---|---|')
for name in sorted(res):
    r = res[name]
    cells = []
    for p, c in sorted(r['checks'].items()):
        v = 'fires' if c['exit'] == 1 else ('silent' if c['exit'] == 0 else 'exit %s' % c['exit'])
        rules = ', '.join('`%s`' % x[:60] for x in c['violations'][:2])
        cells.append('%s %s%s' % (p, v, (' ' + rules) if rules else ''))
    t = r.get('tests')
    ts = '' if not t else ('%d pass / %d fail' % (t['passed'], t['failed']))
    lines.append('| %s | %s | %s | %s |' % (name.replace('.patch', ''), r['kind'] + ('' if r['as_expected'] else ' (**unexpected**)'), '; '.join(cells), ts))
seed = []
seed.append('| Seeded change (seeded/…) | Property | What it changes | Needs | Confirmed² | Detected by |')
seed.append('|---|---|---|---|---|---|')
for mp in sorted(glob.glob(os.path.join(HERE, 'seeded/*/meta.json'))):
    m = json.load(open(mp))
    det = m.get('detection', {})
    fired = '; '.join('%s (%s)' % (p, ', '.join('`%s`' % x[:50] for x in v[:2])) for p, v in sorted(det.get('fired', {}).items())) or '**missed**'
    seed.append('| %s | %s | %s | %s | %s | %s |' % (m['id'], m['property'], m.get('change', ''), m.get('needs_to_manifest', ''), 'yes' if m.get('confirmation', {}).get('confirmed') else 'no', fired))
neu = []
neu.append('| Behaviour-preserving refactoring (neutral_seeded/…) | Area given to the sub-agent | Alarms over all 19 checks (must be none) |')
neu.append('|---|---|---|')
for mp in sorted(glob.glob(os.path.join(HERE, 'neutral_seeded/*/meta.json'))):
    m = json.load(open(mp))
    ev = m.get('evaluation') or {}
    al = '; '.join('%s (%s)' % (p, ', '.join('`%s`' % x[:50] for x in v[:2])) for p, v in sorted((ev.get('alarms') or {}).items()))
    neu.append('| %s | %s | %s |' % (m['id'], m.get('area', '')[:200], ('**alarms**: ' + al) if al else ('silent' if ev else 'not evaluated')))
block = '\n'.join(lines) + '\n\n' + '\n'.join(seed) + '\n\n' + '\n'.join(neu) + '\n'
p = os.path.join(HERE, 'DESIGN.md')
s = open(p).read()
a, b = '<!-- GENERATED:catch-table -->', '<!-- /GENERATED:catch-table -->'
if a in s:
    s = s[:s.index(a) + len(a)] + '\n' + block + s[s.index(b):]
    open(p, 'w').write(s)
    print('updated DESIGN.md (%d mutants, %d seeded)' % (len(res), len(seed) - 2))
else:
    print(block)
