#!/usr/bin/env python3
"""Seeded-change bookkeeping (not a registered check).

  seeded.py import <id> <prop> <outdir>    copy patch.diff / demo / notes produced by a sub-agent into /verif/seeded/<id>/
  seeded.py confirm <id>                   scratch worktree of /repo HEAD: demo passes without the patch; with the patch the
                                           workspace compiles, the existing tests pass and the demo fails
  seeded.py eval <id> [Cnn ...]            run the checks (default: all claimed) against a scratch copy with the patch applied
"""
import sys, os, json, subprocess, shutil, tempfile, re, glob
HERE = os.path.dirname(os.path.dirname(os.path.abspath(__file__)))
sys.path.insert(0, os.path.join(HERE, 'tools'))
SEED = os.path.join(HERE, 'seeded')


def sh(cmd, cwd=None, env=None, timeout=3600):
    p = subprocess.run(cmd, cwd=cwd, env=env, shell=isinstance(cmd, str), capture_output=True, text=True, timeout=timeout)
    return p.returncode, p.stdout + p.stderr


def meta_path(i):
    return os.path.join(SEED, i, 'meta.json')


def load(i):
    return json.load(open(meta_path(i)))


def save(i, m):
    json.dump(m, open(meta_path(i), 'w'), indent=1)


def do_import(i, prop, outdir):
    d = os.path.join(SEED, i)
    os.makedirs(d, exist_ok=True)
    shutil.copy(os.path.join(outdir, 'patch.diff'), os.path.join(d, 'patch.diff'))
    if os.path.exists(os.path.join(outdir, 'notes.md')):
        shutil.copy(os.path.join(outdir, 'notes.md'), os.path.join(d, 'agent_notes.md'))
    demos = []
    for dp, dn, fn in os.walk(outdir):
        for f in fn:
            if f.endswith('.rs'):
                rel = os.path.relpath(os.path.join(dp, f), outdir)
                os.makedirs(os.path.dirname(os.path.join(d, 'demo', rel)), exist_ok=True)
                shutil.copy(os.path.join(dp, f), os.path.join(d, 'demo', rel))
                demos.append(rel)
    m = {'id': i, 'property': prop, 'demo_files': demos, 'source': 'fresh sub-agent given only the property text and a scratch worktree'}
    save(i, m)
    print('imported', i, demos)


def worktree(rev='HEAD'):
    d = tempfile.mkdtemp(prefix='verif-seed.', dir='/var/tmp')
    rc, out = sh(['git', '-C', '/repo', 'worktree', 'add', '--detach', '-f', d, rev])
    if rc:
        raise SystemExit(out)
    return d


def rm_worktree(d):
    sh(['git', '-C', '/repo', 'worktree', 'remove', '--force', d])
    shutil.rmtree(d, ignore_errors=True)


def test_summary(out):
    passed = sum(int(x) for x in re.findall(r'test result: \w+\. (\d+) passed', out))
    failed = sum(int(x) for x in re.findall(r'test result: \w+\. \d+ passed; (\d+) failed', out))
    return passed, failed


def do_confirm(i):
    m = load(i)
    d = worktree(m.get('base_commit', 'HEAD'))
    env = dict(os.environ, CARGO_NET_OFFLINE='true', CARGO_TARGET_DIR=os.path.join(d, 'target'))
    if os.path.isdir('/repo/target'):
        subprocess.call(['cp', '-al', '/repo/target', os.path.join(d, 'target')])
        subprocess.call(['find', os.path.join(d, 'target'), '-name', '.cargo-lock', '-delete'])
    try:
        demo_targets = []
        for rel in m['demo_files']:
            dst = os.path.join(d, rel)
            os.makedirs(os.path.dirname(dst), exist_ok=True)
            shutil.copy(os.path.join(SEED, i, 'demo', rel), dst)
            pkg = 'cel-interpreter' if rel.startswith('interpreter/') else 'cel-parser'
            demo_targets.append((pkg, os.path.splitext(os.path.basename(rel))[0]))
        res = {}
        # 1. demo without the patch
        outs = []
        rc_all = 0
        for pkg, t in demo_targets:
            rc, out = sh(['cargo', 'test', '--offline', '-p', pkg, '--features', 'json', '--test', t] if pkg == 'cel-interpreter' else ['cargo', 'test', '--offline', '-p', pkg, '--test', t], cwd=d, env=env)
            rc_all |= rc
            outs.append(out)
        res['demo_without_patch'] = {'rc': rc_all, 'summary': test_summary('\n'.join(outs))}
        # 2. apply
        rc, out = sh(['git', 'apply', os.path.join(SEED, i, 'patch.diff')], cwd=d)
        res['patch_applies'] = rc == 0
        if rc:
            res['apply_error'] = out[-500:]
        else:
            # 3. existing suite (demo removed so that it does not count)
            for rel in m['demo_files']:
                os.rename(os.path.join(d, rel), os.path.join(d, rel + '.off'))
            rc, out = sh(['cargo', 'test', '--workspace', '--no-fail-fast', '--offline'], cwd=d, env=env)
            res['suite_with_patch'] = {'rc': rc, 'summary': test_summary(out), 'tail': out[-400:] if rc else ''}
            for rel in m['demo_files']:
                os.rename(os.path.join(d, rel + '.off'), os.path.join(d, rel))
            outs = []
            rc_all = 0
            for pkg, t in demo_targets:
                rc, out = sh(['cargo', 'test', '--offline', '-p', pkg, '--features', 'json', '--test', t] if pkg == 'cel-interpreter' else ['cargo', 'test', '--offline', '-p', pkg, '--test', t], cwd=d, env=env)
                rc_all |= rc
                outs.append(out)
            res['demo_with_patch'] = {'rc': rc_all, 'summary': test_summary('\n'.join(outs))}
        res['confirmed'] = bool(res.get('patch_applies') and res['demo_without_patch']['rc'] == 0 and res['suite_with_patch']['rc'] == 0
                                and res['suite_with_patch']['summary'][1] == 0 and res['demo_with_patch']['rc'] != 0)
        m['confirmation'] = res
        m['ran'] = ['demo test without the patch (must pass)', 'git apply patch.diff', 'cargo test --workspace --no-fail-fast --offline (must pass)', 'demo test with the patch (must fail)']
        save(i, m)
        print(json.dumps(res, indent=1))
    finally:
        rm_worktree(d)


def do_eval(i, props):
    import mutant
    m = load(i)
    if not props:
        man = json.load(open(os.path.join(HERE, 'MANIFEST.json')))
        props = [c['property_id'] for c in man['checks']]
    if m.get('base_commit'):
        # the change was made against an older repository commit: evaluate the checks on that commit plus the change
        d = tempfile.mkdtemp(prefix='verif-seed.', dir='/var/tmp')
        try:
            subprocess.check_call('git -C /repo archive %s | tar -x -C %s' % (m['base_commit'], d), shell=True)
            subprocess.check_call(['git', 'apply', '--unsafe-paths', '--directory', d, os.path.join(SEED, i, 'patch.diff')], cwd='/')
            r = {'checks': {}}
            for pid in props:
                c = subprocess.run([os.path.join(HERE, 'check'), pid, 'quick'], env=dict(os.environ, VERIF_REPO=d), capture_output=True, text=True, cwd=HERE)
                r['checks'][pid] = {'rc': c.returncode, 'violations': re.findall(r'^  violation (\S+)', c.stdout, re.M)}
        finally:
            shutil.rmtree(d, ignore_errors=True)
    else:
        r = mutant.run(os.path.join(SEED, i, 'patch.diff'), tests=False, props=props)
    fired = {p: c['violations'] for p, c in r['checks'].items() if c['rc'] == 1}
    broken = {p: c for p, c in r['checks'].items() if c['rc'] not in (0, 1)}
    if r.get('error'):
        broken['apply'] = r['error']
    m['detection'] = {'checks_run': props, 'fired': fired, 'errors': broken, 'detected_by_target_property': m['property'] in fired}
    save(i, m)
    print(json.dumps(m['detection'], indent=1)[:3000])


if __name__ == '__main__':
    a = sys.argv[1:]
    if a[0] == 'import':
        do_import(a[1], a[2], a[3])
    elif a[0] == 'confirm':
        do_confirm(a[1])
    elif a[0] == 'eval':
        do_eval(a[1], a[2:])
