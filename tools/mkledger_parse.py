import sys, re, json
sys.path.insert(0,'/verif')
from rules import facts as F, panics as P
fx=F.Facts(sys.argv[1])
pat=re.compile(r'^antlr/src/(parser|macros|parse|references|lib|reference)\.rs|^antlr/src/ast/')
cats=[
 (r'^macros::(\w+)_macro_expander\|call\|panic\(internal error: entered unreachable code: (Expected a target|Got a target)', 'the expander is selected by find_expander, whose arm for this macro tests the same receiver condition (target.is_some() / is_none()); checked on every run by C10 R1 find_expander table'),
 (r'^macros::(\w+)_macro_expander\|call\|panic\(internal error: entered unreachable code: Expected', 'the expander is selected by find_expander, whose arm for this macro tests the same args.len(); checked on every run by C10 R1 find_expander table'),
 (r'^macros::(\w+)_macro_expander\|call\|remove\(', 'args.remove(k) with k below the argument count guaranteed by find_expander (C10 R1 enumerates the expander for every admitted arity with exact Vec sequences; an out-of-range remove would make the expansion diverge and the template check fail)'),
 (r'^macros::(\w+)_macro_expander\|call\|insert\(', 'arguments.insert(0, _) on a vector that holds one element: index 0 <= len'),
 (r'^macros::(\w+)_macro_expander\|call\|Option::unwrap\(arg2\)', 'target.unwrap() after find_expander required target.is_some() for this macro (C10 R1 table)'),
 (r'^macros::(\w+)_macro_expander\|call\|Option::unwrap\(pop\(arg3\)\)', 'args.pop().unwrap() on a vector with at least one element left (arity guaranteed by find_expander; C10 R1 interprets the expander for every admitted arity)'),
 (r'^parse::parse_quoted_string\|call\|panic\(internal error: entered unreachable code\)', 'inner `match c2 { x|X => 2, u => 4, U => 8, _ => unreachable!() }` inside the outer arm for exactly x|X|u|U; C12 R1 interprets this code for every ASCII escape character and would report an unanalysable/diverging path'),
 (r'^parse::parse_bytes\|call\|index var \[RangeTo', '&buffer[..c.len_utf8()] on a [u8; 4]: len_utf8() is 1..=4'),
 (r'^ast::SourceInfo::pos_for\|assert\|Overflow', 'line/offset arithmetic over the source text in isize: all quantities are bounded by the length of the source string (< isize::MAX)'),
 (r'^parser::LogicManager::balanced_tree\|assert\|Overflow\(Add\)\(var:usize ; var:usize\)', 'lo + hi with lo <= hi < ops.len(): a vector cannot hold 2^63 elements'),
 (r'^parser::LogicManager::balanced_tree\|assert\|Overflow\(Sub\)\(var:usize ; 1\)', 'mid - 1 is evaluated only when mid != lo, and mid >= lo, hence mid >= 1'),
 (r'^parser::LogicManager::balanced_tree\|call\|div_ceil', 'usize::div_ceil(2): the divisor is the constant 2'),
 (r'^parser::LogicManager::balanced_tree\|call\|index arg1\.(terms|ops)', 'lo <= mid <= hi <= ops.len()-1 and terms.len() == ops.len()+1 (add_term pushes one term per op after the initial term, C04 R4), so mid and mid+1 index terms and mid indexes ops'),
 (r'^parser::LogicManager::expr\|', 'ops.len() - 1 is evaluated only when terms.len() != 1, i.e. at least one add_term happened and ops is non-empty (C04 R4: add_term pushes to both)'),
 (r'^parser::Parser::parse\|call\|borrow\(', 'parse_errors.borrow(): the only mutable borrows are inside ParserErrorListener::syntax_error during prsr.start(), which has returned'),
 (r'ErrorListener>::syntax_error\|call\|borrow_mut', 'borrow_mut inside syntax_error: listeners are invoked sequentially by the lexer/parser, no borrow is held across the call'),
 (r'(syntax_error|report_error)\|assert\|Overflow\(Add\)\(var:isize ; 1\)', 'column + 1 where column is a character position inside the source text (< isize::MAX)'),
 (r'visit_conditional(Or|And)\|call\|index arg2\.e1', 'rest[i] with i < ops.len() and the preceding early return when ops.len() > rest.len()'),
 (r'visit_(LogicalNot|Negate)\|call\|index arg2\.ops \[const\(0\)', 'ctx.ops[0]: the grammar alternative is (ops+=\'!\')+ member / (ops+=\'-\')+ member, so an error-free tree (C01 R3) has at least one operator token (C04 R1 prefix/unary paths)'),
 (r'fmt::Display>::fmt\|assert\|Overflow\(Sub\)\(var:isize ; 1\)', 'pos.0 - 1 where pos.0 is a line number >= 0'),
 (r'\|call\|Option::expect\((arg2\.tok|literal\(arg2\))\)', 'labelled token / child of a literal alternative: present in every error-free tree (C01 R3: trees with syntax errors are never walked)'),
 (r'visit_Uint\|assert\|Overflow\(Sub\)', 'string.len() - 1 on the text of a NUM_UINT token, which ends in u|U and has at least one digit'),
 (r'visit_Uint\|call\|truncate', 'truncate(len - 1) removes the final ASCII u|U of a NUM_UINT token: a char boundary'),
 (r'visit_Bytes\|assert\|Overflow\(Sub\)', 'body.len() - quotes on the text of a BYTES token after its b and optional r prefix: the lexer guarantees an opening and a closing run of `quotes` quote characters (C12 R3 enumerates the shapes from the lexer ATN)'),
 (r'visit_Bytes\|call\|index', 'slices of a BYTES token text at the ASCII prefix b|B (1..) and at the quote runs (quotes..len-quotes): in bounds and on char boundaries for every token shape the lexer admits (C12 R3)'),
 (r'ParserHelper::next_id_for\|call\|Option::expect', 'offset_for(id).expect("invalid offset"): id 0 (no offset) arises only from next_id_for_token(None), i.e. a GlobalCall/CreateList/CreateStruct context without its opening token - impossible on an error-free tree (C01 R3)'),
 (r'MacroExprHelper::pos_for|SourceInfo::snippet', 'no panic'),
]
ents=[]
todo=[]
seen={}
for b in sorted(fx.bodies.values(), key=lambda x:(x.loc(),x.path)):
    if b.crate!='cel_parser' or b.raw['kind']=='Promoted' or b.is_derived() or not pat.match(b.loc()): continue
    es,pv=P.collect_body(b)
    for e in es:
        if P.auto_discharge(e,pv): continue
        k=e.key()
        seen[k]=seen.get(k,0)+1
for k,n in seen.items():
    for rx,why in cats:
        if re.search(rx,k):
            ents.append({'family':'parse','key':k,'class':'benign','count':n,'reason':why}); break
    else:
        todo.append((k,n))
print(len(ents),'classified;',len(todo),'todo')
for k,n in todo: print('   TODO',n,k)
d=json.load(open('/verif/tables/panic_ledger.json'))
d['entries']=[e for e in d['entries'] if e['family']!='parse']+ents
json.dump(d,open('/verif/tables/panic_ledger.json','w'),indent=1)
