#!/usr/bin/env python3
"""Mutant tooling for ./selftest (never part of a registered check).

  mutant.py make <break|neutral> <name> <props> <file> <old> <new> [<file> <old> <new> ...]
        builds a patch from textual replacements against /repo HEAD (+ working tree)
  mutant.py run <patch> [--tests] [--props C06,C07]
        applies the patch to a scratch copy of /repo, runs the named checks with
        VERIF_REPO pointing at the copy, optionally the repo test-suite, removes the copy
"""
import sys, os, subprocess, tempfile, shutil, re, json

HERE = os.path.dirname(os.path.dirname(os.path.abspath(__file__)))
REPO = '/repo'


def scratch_copy():
    d = tempfile.mkdtemp(prefix='verif-mut.', dir='/var/tmp')
    subprocess.check_call(['rsync', '-a', '--exclude', 'target', '--exclude', '.git', REPO + '/', d + '/'])
    return d


def make(kind, name, props, triples):
    d = scratch_copy()
    try:
        subprocess.check_call(['git', 'init', '-q'], cwd=d)
        subprocess.check_call(['git', 'add', '-A'], cwd=d)
        subprocess.check_call(['git', '-c', 'user.email=a@b', '-c', 'user.name=x', 'commit', '-qm', 'base'], cwd=d)
        for i in range(0, len(triples), 3):
            f, old, new = triples[i:i + 3]
            p = os.path.join(d, f)
            s = open(p).read()
            if s.count(old) != 1:
                raise SystemExit('%s: pattern occurs %d times in %s' % (name, s.count(old), f))
            open(p, 'w').write(s.replace(old, new))
        diff = subprocess.check_output(['git', 'diff'], cwd=d, text=True)
        out = os.path.join(HERE, 'mutants', kind, name + '.patch')
        with open(out, 'w') as fh:
            fh.write('# props: %s\n' % props)
            fh.write(diff)
        print('wrote', out)
    finally:
        shutil.rmtree(d, ignore_errors=True)


def props_of(patch):
    first = open(patch).readline()
    m = re.match(r'# props: (.*)', first)
    return [p for p in m.group(1).replace(',', ' ').split() if p] if m else []


def run(patch, tests=False, props=None, quiet=False):
    d = scratch_copy()
    res = {'patch': os.path.basename(patch), 'checks': {}}
    try:
        p = subprocess.run(['git', 'apply', '--unsafe-paths', '--directory', d, os.path.abspath(patch)], cwd='/', capture_output=True, text=True)
        if p.returncode != 0:
            p = subprocess.run(['patch', '-p1', '-d', d, '-i', os.path.abspath(patch)], capture_output=True, text=True)
            if p.returncode != 0:
                res['error'] = 'patch does not apply: ' + p.stdout[-300:] + p.stderr[-300:]
                return res
        if tests:
            # reuse the dependency artefacts of /repo/target through hard links (members are rebuilt: their paths differ)
            if os.path.isdir(os.path.join(REPO, 'target')):
                subprocess.call(['cp', '-al', os.path.join(REPO, 'target'), os.path.join(d, 'target')])
                # a hard-linked lock file is one lock shared by every copy: concurrent runs block each other forever
                subprocess.call(['find', os.path.join(d, 'target'), '-name', '.cargo-lock', '-delete'])
            env = dict(os.environ, CARGO_NET_OFFLINE='true', CARGO_TARGET_DIR=os.path.join(d, 'target'))
            t = subprocess.run(['cargo', 'test', '--workspace', '--no-fail-fast', '--offline', '--tests'],
                               cwd=d, env=env, capture_output=True, text=True)
            passed = sum(int(x) for x in re.findall(r'test result: \w+\. (\d+) passed', t.stdout))
            failed = sum(int(x) for x in re.findall(r'test result: \w+\. \d+ passed; (\d+) failed', t.stdout))
            res['tests'] = {'rc': t.returncode, 'passed': passed, 'failed': failed}
            if t.returncode != 0 and passed == 0:
                res['tests']['tail'] = t.stderr[-1500:]
        for pid in (props or props_of(patch)):
            env = dict(os.environ, VERIF_REPO=d)
            c = subprocess.run([os.path.join(HERE, 'check'), pid, 'quick'], env=env, capture_output=True, text=True,
                               cwd=HERE)
            viol = re.findall(r'^  violation (\S+)', c.stdout, re.M)
            res['checks'][pid] = {'rc': c.returncode, 'violations': viol}
            if c.returncode not in (0, 1):
                res['checks'][pid]['stderr'] = c.stderr[-800:]
    finally:
        shutil.rmtree(d, ignore_errors=True)
    return res


if __name__ == '__main__':
    if sys.argv[1] == 'make':
        make(sys.argv[2], sys.argv[3], sys.argv[4], sys.argv[5:])
    elif sys.argv[1] == 'run':
        a = sys.argv[2:]
        tests = '--tests' in a
        props = None
        if '--props' in a:
            props = a[a.index('--props') + 1].split(',')
        print(json.dumps(run(a[0], tests, props), indent=1))
