#!/usr/bin/env python3
"""commit_hunks.py <repo> <regex matching hunk text> <commit message>  — stage and commit only the working-tree
hunks whose text matches the regex (used to split several repairs into one `fix:` commit each)."""
import sys, re, subprocess
repo, rx, msg = sys.argv[1], re.compile(sys.argv[2]), sys.argv[3]
diff = subprocess.check_output(['git', '-C', repo, 'diff', '-U3'], text=True)
files = re.split(r'(?m)^(?=diff --git )', diff)
out = ''
n = 0
for f in files:
    if not f.strip():
        continue
    parts = re.split(r'(?m)^(?=@@ )', f)
    head, hunks = parts[0], parts[1:]
    keep = [h for h in hunks if rx.search(h)]
    if keep:
        out += head + ''.join(keep)
        n += len(keep)
if not n:
    sys.exit('no hunk matches')
p = subprocess.run(['git', '-C', repo, 'apply', '--cached', '--recount', '-'], input=out, text=True, capture_output=True)
if p.returncode:
    sys.exit(p.stderr)
subprocess.check_call(['git', '-C', repo, 'commit', '-q', '-m', msg])
print('committed %d hunk(s): %s' % (n, subprocess.check_output(['git', '-C', repo, 'log', '--format=%h %s', '-1'], text=True).strip()))
