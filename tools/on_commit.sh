#!/bin/bash
# usage: on_commit.sh <commit> <Cnn> [<Cnn> ...]   — run checks against a scratch worktree of /repo at <commit>
C=$1; shift
D=$(mktemp -d /var/tmp/verif-wt.XXXXXX)
git -C /repo worktree add --detach -f "$D" "$C" >/dev/null 2>&1 || { echo "worktree failed"; exit 2; }
for p in "$@"; do
  echo "--- $p @ $C"
  VERIF_REPO=$D /verif/check $p quick | grep -E "^==|violation|KNOWN|VIOLATION"
done
git -C /repo worktree remove --force "$D"; rm -rf "$D"
