#!/usr/bin/env python3
"""tables/reference/known_functions.json: every function body of the two repository crates in the reference tree
(union over all feature configurations).  Functions that are NOT in this table are helpers introduced later; the fact
loader inlines them into their callers so that rules written against the known functions look through them."""
import sys, os, json, glob, subprocess
HERE = os.path.dirname(os.path.dirname(os.path.abspath(__file__)))
sys.path.insert(0, HERE)
out = set()
# quick + thorough facts of the current tree
subprocess.run([os.path.join(HERE, 'check'), 'C06', 'thorough'], stdout=subprocess.DEVNULL)
d = subprocess.run([os.path.join(HERE, 'check'), '--facts-dir', 'x'], capture_output=True, text=True).stdout.strip().splitlines()[-1]
base = os.path.dirname(d)
for cfg in sorted(os.listdir(base)):
    for f in glob.glob(os.path.join(base, cfg, 'cel_*.json')):
        j = json.load(open(f))
        if j.get('test'):
            continue
        for b in j['bodies']:
            if b['kind'] in ('Fn', 'AssocFn'):
                out.add(b['path'])
json.dump({'commit': subprocess.run(['git', '-C', os.environ.get('VERIF_REPO', '/repo'), 'rev-parse', '--short', 'HEAD'], capture_output=True, text=True).stdout.strip(),
           'functions': sorted(out)}, open(os.path.join(HERE, 'tables/reference/known_functions.json'), 'w'), indent=0)
print(len(out), 'functions')
