#!/usr/bin/env python3
"""Definitions of the self-test mutants (textual replacements against /repo HEAD).
`python3 tools/mutants_def.py` regenerates mutants/{break,neutral}/*.patch."""
import os, sys, subprocess
HERE = os.path.dirname(os.path.abspath(__file__))
OBJ = 'interpreter/src/objects.rs'
CTXF = 'interpreter/src/context.rs'
FUN = 'interpreter/src/functions.rs'
MAG = 'interpreter/src/magic.rs'
REF = 'antlr/src/references.rs'
PAR = 'antlr/src/parser.rs'
PRS = 'antlr/src/parse.rs'
MAC = 'antlr/src/macros.rs'

M = []
def brk(name, props, *triples): M.append(('break', name, props, triples))
def neu(name, props, *triples): M.append(('neutral', name, props, triples))

# ---- C06
brk('c06_and_eager', 'C06', OBJ, '''                            return if !left.to_bool() {
                                Value::Bool(false)
                            } else {
                                let right = Value::resolve(&call.args[1], ctx)?;
                                Value::Bool(right.to_bool())
                            }''', '''                            let right = Value::resolve(&call.args[1], ctx)?;
                            return if !left.to_bool() {
                                Value::Bool(false)
                            } else {
                                Value::Bool(right.to_bool())
                            }''')
brk('c06_or_polarity', 'C06', OBJ, '''                            return if left.to_bool() {
                                left.into()''', '''                            return if !left.to_bool() {
                                left.into()''')
brk('c06_cond_both', 'C06', OBJ, '''                    return if cond.to_bool() {
                        Value::resolve(&call.args[1], ctx)
                    } else {
                        Value::resolve(&call.args[2], ctx)
                    };''', '''                    let a = Value::resolve(&call.args[1], ctx);
                    let b = Value::resolve(&call.args[2], ctx);
                    return if cond.to_bool() { a } else { b };''')
neu('c06_or_match_form', 'C06 C07 C19', OBJ, '''                            return if left.to_bool() {
                                left.into()
                            } else {
                                Value::resolve(&call.args[1], ctx)
                            };''', '''                            return match left.to_bool() {
                                false => Value::resolve(&call.args[1], ctx),
                                true => left.into(),
                            };''')
# ---- C07
brk('c07_prelude_double_eval', 'C07', OBJ, '''                if call.args.len() == 1 {
                    match call.func_name.as_str() {''', '''                if call.args.len() == 1 {
                    let _probe = Value::resolve(&call.args[0], ctx);
                    match call.func_name.as_str() {''')
brk('c07_right_to_left', 'C07', OBJ, '''                        operators::SUBSTRACT => {
                            return Value::resolve(&call.args[0], ctx)?
                                - Value::resolve(&call.args[1], ctx)?
                        }''', '''                        operators::SUBSTRACT => {
                            let right = Value::resolve(&call.args[1], ctx)?;
                            return Value::resolve(&call.args[0], ctx)? - right;
                        }''')
brk('c07_extractor_no_advance', 'C07', MAG, '''    let idx = ctx.arg_idx;
    ctx.arg_idx += 1;
    ctx.resolve(Argument(idx))''', '''    let idx = ctx.arg_idx;
    if idx > 0 {
        ctx.arg_idx += 1;
    }
    ctx.resolve(Argument(idx))''')
brk('c07_this_consumes_with_receiver', 'C07', MAG, '''        if let Some(ref this) = ctx.this {
            Ok(This(T::from_value(this)?))''', '''        if let Some(ref this) = ctx.this {
            let this = this.clone();
            let _ = arg_value_from_context(ctx);
            Ok(This(T::from_value(&this)?))''')
# ---- C08
brk('c08_wrapping_add', 'C08', OBJ, '''            (Value::UInt(l), Value::UInt(r)) => l
                .checked_add(r)
                .ok_or(ExecutionError::IntegerOverflow("add", l.into(), r.into()))
                .map(Value::UInt),''', '''            (Value::UInt(l), Value::UInt(r)) => Ok(Value::UInt(l.wrapping_add(r))),''')
brk('c08_sub_uses_checked_add', 'C08', OBJ, '''            (Value::Int(l), Value::Int(r)) => l
                .checked_sub(r)''', '''            (Value::Int(l), Value::Int(r)) => l
                .checked_add(r.wrapping_neg())''')
brk('c08_rem_no_zero_test', 'C08', OBJ, '''                if r == 0 {
                    Err(ExecutionError::RemainderByZero(l.into()))
                } else {
                    l.checked_rem(r)
                        .ok_or(ExecutionError::IntegerOverflow("rem", l.into(), r.into()))
                        .map(Value::Int)
                }''', '''                l.checked_rem(r)
                    .ok_or(ExecutionError::RemainderByZero(l.into()))
                    .map(Value::Int)''')
brk('c08_mixed_arm', 'C08', OBJ, '''            (Value::Float(l), Value::Float(r)) => Value::Float(l * r).into(),''', '''            (Value::Float(l), Value::Float(r)) => Value::Float(l * r).into(),
            (Value::Int(l), Value::Float(r)) => Value::Float(l as f64 * r).into(),''')
# ---- C09
brk('c09_le_is_lt', 'C09', OBJ, '''                                    != Ordering::Greater,''', '''                                    == Ordering::Less,''')
brk('c09_lossy_again', 'C09', OBJ, '''            (Value::Int(a), Value::Float(b)) => cmp_int_float(*a, *b) == Some(Ordering::Equal),''', '''            (Value::Int(a), Value::Float(b)) => (*a as f64) == *b,''')
brk('c09_missing_reverse', 'C09', OBJ, '''            (Value::Float(a), Value::Int(b)) => cmp_int_float(*b, *a).map(Ordering::reverse),''', '''            (Value::Float(a), Value::Int(b)) => cmp_int_float(*b, *a),''')
brk('c09_helper_closed_bound', 'C09', OBJ, '''    if b >= 9223372036854775808.0 {
        return Some(Ordering::Less);
    }''', '''    if b > 9223372036854775808.0 {
        return Some(Ordering::Less);
    }''')
brk('c09_max_keeps_less', 'C09', FUN, '''                Some(Ordering::Greater) => Ok(acc),
                Some(_) => Ok(x),''', '''                Some(Ordering::Less) => Ok(acc),
                Some(_) => Ok(x),''')
# ---- C10
brk('c10_all_init_false', 'C10', MAC, '''    let init = helper.next_expr(Expr::Literal(Boolean(true)));
    let result_binding = "@result".to_string();
    let accu_ident''', '''    let init = helper.next_expr(Expr::Literal(Boolean(false)));
    let result_binding = "@result".to_string();
    let accu_ident''')
brk('c10_exists_no_early_exit', 'C10', MAC, '''    let condition = helper.next_expr(Expr::Call(CallExpr {
        func_name: operators::NOT_STRICTLY_FALSE.to_string(),
        target: None,
        args: vec![arg],
    }));''', '''    let _ = arg;
    let condition = helper.next_expr(Expr::Literal(Boolean(true)));''')
brk('c10_filter_branches_swapped', 'C10', MAC, '''        args: vec![filter, step, accu],
    }));

    let result = helper.next_expr(Expr::Ident(result_binding.clone()));

    Ok(helper.next_expr(Expr::Comprehension(ComprehensionExpr {
        iter_range: Box::new(target.unwrap()),
        iter_var: v,
        iter_var2: None,
        accu_var: result_binding,
        accu_init: init.into(),
        loop_cond: condition.into(),
        loop_step: step.into(),
        result: result.into(),
    })))
}

fn extract_ident''', '''        args: vec![filter, accu, step],
    }));

    let result = helper.next_expr(Expr::Ident(result_binding.clone()));

    Ok(helper.next_expr(Expr::Comprehension(ComprehensionExpr {
        iter_range: Box::new(target.unwrap()),
        iter_var: v,
        iter_var2: None,
        accu_var: result_binding,
        accu_init: init.into(),
        loop_cond: condition.into(),
        loop_step: step.into(),
        result: result.into(),
    })))
}

fn extract_ident''')
brk('c10_exists_one_at_least', 'C10', MAC, '''        func_name: operators::EQUALS.to_string(),''', '''        func_name: operators::GREATER_EQUALS.to_string(),''')
brk('c10_map3_filter_is_transform', 'C10', MAC, '''    let func = args.pop().unwrap();
    let v = extract_ident(args.remove(0), helper)?;''', '''    let v = extract_ident(args.remove(0), helper)?;
    let func = args.remove(0);''')
brk('c10_exists_one_arity3', 'C10', MAC, '''        operators::EXISTS_ONE | "existsOne" if args.len() == 2 && target.is_some() => {''', '''        operators::EXISTS_ONE | "existsOne" if args.len() >= 2 && target.is_some() => {''')
brk('c10_cond_false_continues', 'C10', OBJ, '''                    Value::List(items) => {
                        for item in items.deref() {
                            if !Value::resolve(&comprehension.loop_cond, &ctx)?.to_bool() {
                                break;
                            }''', '''                    Value::List(items) => {
                        for item in items.deref() {
                            if !Value::resolve(&comprehension.loop_cond, &ctx)?.to_bool() {
                                continue;
                            }''')
brk('c10_map_keys_step_error_swallowed', 'C10', OBJ, '''                            ctx.add_variable_from_value(&comprehension.iter_var, key.clone());
                            let accu = Value::resolve(comprehension.loop_step.deref(), &ctx)?;''', '''                            ctx.add_variable_from_value(&comprehension.iter_var, key.clone());
                            let accu = match Value::resolve(comprehension.loop_step.deref(), &ctx) {
                                Ok(v) => v,
                                Err(_) => break,
                            };''')
brk('c10_list_reverse', 'C10 C07', OBJ, '''                        for item in items.deref() {''', '''                        for item in items.deref().iter().rev() {''')
brk('c10_nsf_null_is_false', 'C10', OBJ, '''                                Value::Bool(b) => Ok(Value::Bool(b)),
                                _ => Ok(Value::Bool(true)),''', '''                                Value::Bool(b) => Ok(Value::Bool(b)),
                                Value::Null => Ok(Value::Bool(false)),
                                _ => Ok(Value::Bool(true)),''')
# ---- C11
brk('c11_parent_first', 'C11', CTXF, '''            Context::Child { variables, parent } => match variables.get(&name) {
                Some(value) => Ok(value.clone()),
                None => parent.get_variable(name),
            },''', '''            Context::Child { variables, parent } => match parent.get_variable(name.clone()) {
                Ok(value) => Ok(value),
                Err(e) => variables.get(&name).cloned().ok_or(e),
            },''')
brk('c11_range_in_inner_scope', 'C11', OBJ, '''                let iter = Value::resolve(comprehension.iter_range.deref(), ctx)?;
                let mut ctx = ctx.new_inner_scope();
                ctx.add_variable(&comprehension.accu_var, accu_init)
                    .expect("Failed to add accu variable");
''', '''                let mut ctx = ctx.new_inner_scope();
                ctx.add_variable(&comprehension.accu_var, accu_init)
                    .expect("Failed to add accu variable");
                let iter = Value::resolve(comprehension.iter_range.deref(), &ctx)?;
''')
brk('c11_result_in_outer_scope', 'C11', OBJ, '''                let iter = Value::resolve(comprehension.iter_range.deref(), ctx)?;
                let mut ctx = ctx.new_inner_scope();''', '''                let iter = Value::resolve(comprehension.iter_range.deref(), ctx)?;
                let outer = ctx;
                let mut ctx = ctx.new_inner_scope();''', OBJ, '''                Value::resolve(comprehension.result.deref(), &ctx)
            }''', '''                let _ = &ctx;
                Value::resolve(comprehension.result.deref(), outer)
            }''')
# ---- C12
brk('c12_bell_is_backspace', 'C12', PRS, '''                        'a' => '\\u{07}',''', '''                        'a' => '\\u{08}',''')
brk('c12_u_three_digits', 'C12', PRS, '''                                'u' => 4,''', '''                                'u' => 3,''')
brk('c12_bytes_newline_wrong', 'C12', PRS, '''                        'n' => b'\\n',''', '''                        'n' => b'\\r',''')
brk('c12_octal_unbounded', 'C12', PRS, '''            if u <= 255 {''', '''            if u <= 511 {''')
brk('c12_replacement_char', 'C12', PRS, '''        .and_then(|u| char::from_u32(u).ok_or(ParseUnicodeError::Unicode { value: u }))''', '''        .map(|u| char::from_u32(u).unwrap_or('\\u{fffd}'))''')
brk('c12_accepts_unknown_escape', 'C12', PRS, '''                        '`' => c2,
                        'x' | 'X' | 'u' | 'U' => {''', '''                        '`' | '/' => c2,
                        'x' | 'X' | 'u' | 'U' => {''')
brk('c12_bytes_accepts_u', 'C12', PRS, '''                        '`' => b'`',
                        'x' | 'X' => {''', '''                        '`' => b'`',
                        'x' | 'X' | 'u' => {''')
# ---- C13
brk('c13_nan_blind_again', 'C13', FUN, '''            if v.is_nan() || v >= i64::MAX as f64 || v < i64::MIN as f64 {''', '''            if v >= i64::MAX as f64 || v < i64::MIN as f64 {''')
brk('c13_uint_from_int_as', 'C13', FUN, '''        Value::Int(v) => Value::UInt(
            v.try_into()
                .map_err(|_| ftx.error("unsigned integer overflow"))?,
        ),''', '''        Value::Int(v) => Value::UInt(v as u64),''')
brk('c13_literal_default', 'C13', PAR, '''            Ok(v) => v,
            Err(e) => return self.report_error(token, Some(e), "invalid uint literal"),''', '''            Ok(v) => v,
            Err(_) => u64::MAX,''')
# ---- C14
brk('c14_in_raw_lookup', 'C14', OBJ, '''                                    Ok(key) => return Value::Bool(m.get(&key).is_some()).into(),''', '''                                    Ok(key) => return Value::Bool(m.map.contains_key(&key)).into(),''')
brk('c14_get_as_cast', 'C14', OBJ, '''                Key::Int(k) => Key::Uint(u64::try_from(*k).ok()?),''', '''                Key::Int(k) => Key::Uint(*k as u64),''')
brk('c14_list_index_panics', 'C14 C02', OBJ, '''                                (Value::List(items), Value::Int(idx)) => items
                                    .get(idx as usize)
                                    .cloned()
                                    .unwrap_or(Value::Null)
                                    .into(),''', '''                                (Value::List(items), Value::Int(idx)) => {
                                    items[idx as usize].clone().into()
                                }''')
# ---- C15
DURF = 'interpreter/src/duration.rs'
brk('c15_remainder_dropped', 'C15', FUN, '''        if !rest.is_empty() {
            return Err(ExecutionError::function_error(
                "duration",
                format!("unexpected trailing input '{rest}'"),
            ));
        }
        Ok(duration)''', '''        let _ = rest;
        Ok(duration)''')
brk('c15_nom_double_again', 'C15', DURF, '''    pair(
        digit1,
        map(opt(preceded(char('.'), digit1)), |frac: Option<&str>| {
            frac.unwrap_or("")
        }),
    )(i)''', '''    map(nom::number::complete::recognize_float, |s: &str| {
        s.split_once('.').unwrap_or((s, ""))
    })(i)''')
brk('c15_float_again', 'C15', DURF, '''    let unit = i128::from(unit.nanos());
    let mut nanos = int.parse::<i128>().ok()?.checked_mul(unit)?;''', '''    if frac.len() <= 3 {
        let num: f64 = format!("{int}.{frac}0").parse().ok()?;
        let nanos = (num * unit.nanos() as f64).trunc();
        if nanos.is_nan() || nanos >= i64::MAX as f64 || nanos < i64::MIN as f64 {
            return None;
        }
        return Some(Duration::nanoseconds(nanos as i64));
    }
    let unit = i128::from(unit.nanos());
    let mut nanos = int.parse::<i128>().ok()?.checked_mul(unit)?;''')
brk('c15_micro_sign_dropped', 'C15', DURF, '''        map(tag("\\u{b5}s"), |_| Unit::Microsecond),
''', '')
brk('c15_fraction_trimmed', 'C15', DURF, '''    let digits = frac.get(..frac.len().min(24))?;''', '''    let digits = frac.get(..frac.len().min(24))?.trim_matches('0');''')
brk('c15_scale_from_whole_fraction', 'C15', DURF, '''        let scale = 10i128.checked_pow(u32::try_from(digits.len()).ok()?)?;''', '''        let scale = 10i128.checked_pow(u32::try_from(frac.len()).ok()?)?;''')
neu('n_to_duration_factors_swapped', 'C15 C02', DURF, '''        let part = digits.parse::<i128>().ok()?.checked_mul(unit)?;''', '''        let part = unit.checked_mul(digits.parse::<i128>().ok()?)?;''')
neu('n_to_duration_fraction_first', 'C15 C02', DURF, '''    let mut nanos = int.parse::<i128>().ok()?.checked_mul(unit)?;''', '''    let whole = int.parse::<i128>().ok()?;
    let mut nanos = whole.checked_mul(unit)?;''')
brk('c15_sign_lost', 'C15', DURF, '''    let mut u = nanos.unsigned_abs();''', '''    let mut u = nanos as u128;''')
brk('c15_duration_add_panics', 'C15 C02', OBJ, '''            (Value::Duration(l), Value::Duration(r)) => l
                .checked_add(&r)
                .ok_or(ExecutionError::IntegerOverflow("add", l.into(), r.into()))
                .map(Value::Duration),''', '''            (Value::Duration(l), Value::Duration(r)) => Value::Duration(l + r).into(),''')
brk('c15_minutes_are_ms', 'C15', DURF, '''        map(char('m'), |_| Unit::Minute),''', '''        map(char('m'), |_| Unit::Millisecond),''')
brk('c15_m_before_ms', 'C15', DURF, '''        map(tag("ms"), |_| Unit::Millisecond),
        map(tag("us"), |_| Unit::Microsecond),''', '''        map(char('m'), |_| Unit::Minute),
        map(tag("ms"), |_| Unit::Millisecond),
        map(tag("us"), |_| Unit::Microsecond),''', DURF, '''        map(char('h'), |_| Unit::Hour),
        map(char('m'), |_| Unit::Minute),''', '''        map(char('h'), |_| Unit::Hour),''')
brk('c15_term_saturates', 'C15', DURF, '''    i64::try_from(nanos).ok().map(Duration::nanoseconds)''', '''    Some(Duration::nanoseconds(
        nanos.clamp(i128::from(i64::MIN), i128::from(i64::MAX)) as i64,
    ))''')
brk('c15_term_wraps', 'C15', DURF, '''    i64::try_from(nanos).ok().map(Duration::nanoseconds)''', '''    Some(Duration::nanoseconds(nanos as i64))''')
# ---- C16
brk('c16_month_one_based', 'C16', FUN, '''        Ok((this.month0() as i32).into())''', '''        Ok((this.month() as i32).into())''')
brk('c16_hours_in_utc', 'C16', FUN, '''        Ok((this.hour() as i32).into())''', '''        Ok((this.to_utc().hour() as i32).into())''')
brk('c16_weekday_from_monday', 'C16', FUN, '''        Ok((this.weekday().num_days_from_sunday() as i32).into())''', '''        Ok((this.weekday().num_days_from_monday() as i32).into())''')
brk('c16_compare_local_fields', 'C16', OBJ, '''            (Value::Timestamp(a), Value::Timestamp(b)) => Some(a.cmp(b)),''', '''            (Value::Timestamp(a), Value::Timestamp(b)) => Some(a.naive_local().cmp(&b.naive_local())),''')
brk('c16_timestamp_sub_panics', 'C16 C15', OBJ, '''            (Value::Timestamp(l), Value::Duration(r)) => l
                .checked_sub_signed(r)
                .ok_or(ExecutionError::IntegerOverflow("sub", l.into(), r.into()))
                .map(Value::Timestamp),''', '''            (Value::Timestamp(l), Value::Duration(r)) => Value::Timestamp(l - r).into(),''')
brk('c16_day_of_year_one_based', 'C16', FUN, '''        Ok((this.ordinal0() as i32).into())''', '''        Ok((this.ordinal() as i32).into())''')
# ---- C17
SERF = 'interpreter/src/ser.rs'
brk('c17_u32_becomes_int', 'C17', SERF, '''    fn serialize_u32(self, v: u32) -> Result<Value> {
        self.serialize_u64(u64::from(v))
    }

    fn serialize_u64(self, v: u64) -> Result<Value> {
        Ok(Value::UInt(v))''', '''    fn serialize_u32(self, v: u32) -> Result<Value> {
        self.serialize_i64(i64::from(v))
    }

    fn serialize_u64(self, v: u64) -> Result<Value> {
        Ok(Value::UInt(v))''')
brk('c17_u64_wraps_to_int', 'C17', SERF, '''    fn serialize_u64(self, v: u64) -> Result<Value> {
        Ok(Value::UInt(v))''', '''    fn serialize_u64(self, v: u64) -> Result<Value> {
        Ok(Value::Int(v as i64))''')
brk('c17_unit_variant_is_null', 'C17', SERF, '''        variant: &'static str,
    ) -> Result<Value> {
        self.serialize_str(variant)
    }

    fn serialize_newtype_struct<T>(self, name: &'static str, value: &T) -> Result<Value>''', '''        variant: &'static str,
    ) -> Result<Value> {
        let _ = variant;
        self.serialize_unit()
    }

    fn serialize_newtype_struct<T>(self, name: &'static str, value: &T) -> Result<Value>''')
brk('c17_struct_variant_flattened', 'C17', SERF, '''        let map: HashMap<String, Value> = HashMap::from_iter([(self.name, self.map.into())]);
        Ok(map.into())''', '''        let _ = self.name;
        Ok(self.map.into())''')
brk('c17_map_values_through_key_serializer', 'C17', SERF, '''                )
            })?,
            value.serialize(Serializer)?,
        );''', '''                )
            })?,
            Value::from(&value.serialize(KeySerializer)?),
        );''')
brk('c17_float_keys_truncated', 'C17', SERF, '''    fn serialize_f64(self, _v: f64) -> Result<Key> {
        Err(SerializationError::InvalidKey(
            "Float is not supported".to_string(),
        ))
    }''', '''    fn serialize_f64(self, _v: f64) -> Result<Key> {
        Ok(Key::Int(_v as i64))
    }''')
brk('c17_time_payload_unreachable_again', 'C17', SERF, '''    fn serialize_map(self, _len: Option<usize>) -> Result<Self::SerializeMap> {
        unexpected_time_payload()
    }''', '''    fn serialize_map(self, _len: Option<usize>) -> Result<Self::SerializeMap> {
        unreachable!()
    }''')
brk('c17_duration_nanos_lossy', 'C17', SERF, '''                s.serialize_field(Duration::NANOS_FIELD, &self.0.subsec_nanos())?;''', '''                s.serialize_field(Duration::NANOS_FIELD, &(self.0.num_milliseconds() % 1000 * 1_000_000))?;''')
neu('c17_i8_widening_cast', 'C17', SERF, '''    fn serialize_i8(self, v: i8) -> Result<Value> {
        self.serialize_i64(i64::from(v))''', '''    fn serialize_i8(self, v: i8) -> Result<Value> {
        self.serialize_i64(v as i64)''')
neu('c17_none_direct', 'C17', SERF, '''    fn serialize_none(self) -> Result<Value> {
        self.serialize_unit()
    }

    fn serialize_some<T>(self, value: &T) -> Result<Value>''', '''    fn serialize_none(self) -> Result<Value> {
        Ok(Value::Null)
    }

    fn serialize_some<T>(self, value: &T) -> Result<Value>''')
# ---- C18
JSF = 'interpreter/src/json.rs'
brk('c18_bytes_lossy_utf8', 'C18', JSF, '''            Value::Bytes(ref b) => BASE64_STANDARD.encode(b.as_slice()).to_string().into(),''', '''            Value::Bytes(ref b) => String::from_utf8_lossy(b.as_slice()).to_string().into(),''')
brk('c18_duration_millis', 'C18', JSF, '''                v.num_nanoseconds()
                    .ok_or(ConvertToJsonError::DurationOverflow(v))?,''', '''                v.num_milliseconds(),''')
brk('c18_nested_failure_swallowed', 'C18', JSF, '''                    obj.insert(k.to_string(), v.json()?);''', '''                    obj.insert(k.to_string(), v.json().unwrap_or(serde_json::Value::Null));''')
brk('c18_function_is_null', 'C18', JSF, '''            _ => return Err(ConvertToJsonError::Value(self)),''', '''            Value::Function(..) => serde_json::Value::Null,
            #[allow(unreachable_patterns)]
            _ => return Err(ConvertToJsonError::Value(self)),''')
brk('c18_int_via_float', 'C18', JSF, '''            Value::Int(i) => i.into(),''', '''            Value::Int(i) => (i as f64).into(),''')
brk('c18_list_drops_failures', 'C18', JSF, '''                vec.iter()
                    .map(|v| v.json())
                    .collect::<Result<Vec<_>, _>>()?,''', '''                vec.iter().filter_map(|v| v.json().ok()).collect::<Vec<_>>(),''')
brk('c18_duration_overflow_panics', 'C18', JSF, '''                v.num_nanoseconds()
                    .ok_or(ConvertToJsonError::DurationOverflow(v))?,''', '''                v.num_nanoseconds().expect("duration fits"),''')
# ---- C01
brk('c01_walk_error_tree_again', 'C01', PAR, '''            Ok(_) if !parse_errors.borrow().is_empty() => Ok(IdedExpr::default()),
''', '')
brk('c01_visitor_errors_dropped', 'C01', PAR, '''        let mut errors = parse_errors.take();
        errors.extend(self.errors);''', '''        let mut errors = parse_errors.take();
        drop(self.errors);''')
brk('c01_lexer_listener_missing', 'C01', PAR, '''        lexer.remove_error_listeners();
        lexer.add_error_listener(Box::new(ParserErrorListener {
            parse_errors: parse_errors.clone(),
        }));''', '''        lexer.remove_error_listeners();''')
brk('c01_placeholder_without_error', 'C01', PAR, '''            Err(e) => {
                self.report_error::<ParseError, _>(
                    token,
                    None,
                    format!("invalid bytes literal: {e:?}"),
                );
                IdedExpr::default()
            }''', '''            Err(_) => IdedExpr::default(),''')
brk('c01_syntax_error_filtered', 'C01', PAR, '''            Some(offending_symbol)
                if offending_symbol.get_token_type() == gen::cellexer::WHITESPACE => {}''', '''            Some(offending_symbol)
                if offending_symbol.get_token_type() == gen::cellexer::WHITESPACE
                    || msg.starts_with("extraneous") => {}''')
brk('c01_new_expect_in_visitor', 'C01', PAR, '''    fn visit_Nested(&mut self, ctx: &NestedContext<'_>) -> Self::Return {
        match &ctx.e {
            None => {''', '''    fn visit_Nested(&mut self, ctx: &NestedContext<'_>) -> Self::Return {
        let _open = ctx.start().get_text().chars().next().unwrap();
        match &ctx.e {
            None => {''')
brk('c01_ok_despite_errors', 'C01', PAR, '''        if errors.is_empty() {
            r.map_err(|e| ParseErrors { errors: vec![e] })''', '''        if errors.len() < 2 {
            r.map_err(|e| ParseErrors { errors: vec![e] })''')
# ---- C02
brk('c02_new_unwrap_in_builtin', 'C02', FUN, '''pub fn bytes(value: Arc<String>) -> Result<Value> {
    Ok(Value::Bytes(value.as_bytes().to_vec().into()))''', '''pub fn bytes(value: Arc<String>) -> Result<Value> {
    let _first = value.chars().next().unwrap();
    Ok(Value::Bytes(value.as_bytes().to_vec().into()))''')
brk('c02_args_index_without_len_guard', 'C02', FUN, '''    let items = if args.len() == 1 {
        match &args[0] {
            Value::List(values) => values,
            _ => return Ok(args[0].clone()),
        }
    } else {
        &args
    };

    items
        .iter()
        .skip(1)
        .try_fold(items.first().unwrap_or(&Value::Null), |acc, x| {
            match acc.partial_cmp(x) {
                Some(Ordering::Less) => Ok(acc),''', '''    let items = if args.len() <= 1 {
        match &args[0] {
            Value::List(values) => values,
            _ => return Ok(args[0].clone()),
        }
    } else {
        &args
    };

    items
        .iter()
        .skip(1)
        .try_fold(items.first().unwrap_or(&Value::Null), |acc, x| {
            match acc.partial_cmp(x) {
                Some(Ordering::Less) => Ok(acc),''')
brk('c02_contains_guard_removed', 'C02', FUN, '''                s.is_empty() || b.windows(s.len()).any(|w| w == s)''', '''                b.windows(s.len()).any(|w| w == s)''')
brk('c02_string_index_plus_one', 'C02', OBJ, '''                                    match start.checked_add(1).and_then(|end| str.get(start..end)) {''', '''                                    match str.get(start..start + 1) {''')
neu('c02_helper_extracted', 'C02', DURF, '''fn format_int(buf: &mut [u8], mut v: u128) -> usize {
    let mut w = buf.len();
    if v == 0 {
        w -= 1;
        buf[w] = b'0';
    } else {''', '''fn put_zero(buf: &mut [u8], mut w: usize) -> usize {
    w -= 1;
    buf[w] = b'0';
    w
}

fn format_int(buf: &mut [u8], mut v: u128) -> usize {
    let mut w = buf.len();
    if v == 0 {
        w = put_zero(buf, w);
    } else {''')
brk('c14_concat_order_swapped', 'C14', OBJ, '''                Arc::make_mut(&mut l).push_str(&r);
                Ok(Value::String(l))''', '''                let mut r = r;
                Arc::make_mut(&mut r).push_str(&l);
                Ok(Value::String(r))''')
brk('c14_size_plus_one_for_maps', 'C14', FUN, '''        Value::Map(m) => m.map.len(),
        Value::String(s) => s.len(),''', '''        Value::Map(m) => m.map.len() + 1,
        Value::String(s) => s.len(),''')
# ---- C19
brk('c19_skip_loop_step', 'C19', REF, '''                comp.loop_step._references(variables, functions);
''', '')
brk('c19_skip_target', 'C19', REF, '''                if let Some(target) = &call.target {
                    target._references(variables, functions);
                }
''', '')
brk('c19_guard_underscore', 'C19', REF, '''                if !name.starts_with('@') {''', '''                if !name.starts_with('@') && !name.starts_with('_') {''')
brk('c19_accu_not_private', 'C19', MAC, '''    let init = helper.next_expr(Expr::Literal(Boolean(false)));
    let result_binding = "@result".to_string();''', '''    let init = helper.next_expr(Expr::Literal(Boolean(false)));
    let result_binding = "result".to_string();''')
# ---- C04
GENP = 'antlr/src/gen/celparser.rs'
brk('c04_calc_right_assoc', 'C04', GENP, '''recog.calc_rec(3)?;''', '''recog.calc_rec(2)?;''')
brk('c04_swap_operands_calc', 'C04', PAR, '''                        Some(op) => {
                            self.global_call_or_macro(op_id, op.to_string(), vec![lhs, rhs])
                        }
                    }
                } else {
                    self.report_error::<ParseError, _>(
                        ctx.start().deref(),
                        None,
                        "Incomplete `CalcContext`!",''', '''                        Some(op) => {
                            self.global_call_or_macro(op_id, op.to_string(), vec![rhs, lhs])
                        }
                    }
                } else {
                    self.report_error::<ParseError, _>(
                        ctx.start().deref(),
                        None,
                        "Incomplete `CalcContext`!",''')
brk('c04_balanced_tree_swapped', 'C04', PAR, '''                args: vec![left, right],''', '''                args: vec![right, left],''')
brk('c04_parity_lost_again', 'C04', PAR, '''                if ctx.ops.len() % 2 == 0 {
                    return self.visit(member.as_ref());
                }
                let op_id = self.helper.next_id(&ctx.ops[0]);
                let target = self.visit(member.as_ref());
                self.global_call_or_macro(op_id, operators::NEGATE.to_string(), vec![target])''', '''                let op_id = self.helper.next_id(&ctx.ops[0]);
                let target = self.visit(member.as_ref());
                self.global_call_or_macro(op_id, operators::NEGATE.to_string(), vec![target])''')
brk('c04_ternary_branches_swapped', 'C04', PAR, '''                        vec![result, if_true, if_false],''', '''                        vec![result, if_false, if_true],''')
brk('c04_operator_table_ge_is_gt', 'C04', 'antlr/src/ast/operators.rs', '''    (">=", GREATER_EQUALS),''', '''    (">=", GREATER),''')
brk('c04_index_operands_swapped', 'C04', PAR, '''                        vec![target, index],''', '''                        vec![index, target],''')
brk('c04_or_terms_reversed', 'C04', PAR, '''            for (i, op) in ctx.ops.iter().enumerate() {
                let next = self.visit(rest[i].deref());
                let op_id = self.helper.next_id(op);
                l.add_term(op_id, next)
            }
            l.expr()
        }
    }

    fn visit_conditionalAnd''', '''            for (i, op) in ctx.ops.iter().enumerate() {
                let next = self.visit(rest[rest.len() - 1 - i].deref());
                let op_id = self.helper.next_id(op);
                l.add_term(op_id, next)
            }
            l.expr()
        }
    }

    fn visit_conditionalAnd''')
# ---- C05
brk('c05_refcell_cache', 'C05', CTXF, '''    Root {
        functions: FunctionRegistry,
        variables: HashMap<String, Value>,
    },''', '''    Root {
        functions: FunctionRegistry,
        variables: HashMap<String, Value>,
        hits: std::sync::Mutex<u64>,
    },''', CTXF, '''        Context::Root {
            variables: Default::default(),
            functions: Default::default(),
        }
    }
}''', '''        Context::Root {
            variables: Default::default(),
            functions: Default::default(),
            hits: Default::default(),
        }
    }
}''', CTXF, '''        let mut ctx = Context::Root {
            variables: Default::default(),
            functions: Default::default(),
        };''', '''        let mut ctx = Context::Root {
            variables: Default::default(),
            functions: Default::default(),
            hits: Default::default(),
        };''')
brk('c05_static_counter', 'C05', OBJ, '''impl Value {
    pub fn resolve_all(expr: &[Expression], ctx: &Context) -> ResolveResult {''', '''static EVALS: std::sync::atomic::AtomicU64 = std::sync::atomic::AtomicU64::new(0);

impl Value {
    pub fn resolve_all(expr: &[Expression], ctx: &Context) -> ResolveResult {
        EVALS.fetch_add(1, std::sync::atomic::Ordering::Relaxed);''')
brk('c05_unsafe_append', 'C05', OBJ, '''                Arc::make_mut(&mut l).push_str(&r);
                Ok(Value::String(l))''', '''                unsafe { (*(Arc::as_ptr(&l) as *mut String)).push_str(&r) };
                Ok(Value::String(l))''')


# ---- neutral edits: behaviour-preserving refactors that must not raise any alarm
ALLP = 'C01 C02 C04 C05 C06 C07 C08 C09 C10 C11 C12 C13 C14 C15 C16 C17 C18 C19 C20'
neu('n_add_arms_reordered', 'C08 C02 C05 C15', OBJ, '''            (Value::Int(l), Value::Int(r)) => l
                .checked_add(r)
                .ok_or(ExecutionError::IntegerOverflow("add", l.into(), r.into()))
                .map(Value::Int),

            (Value::UInt(l), Value::UInt(r)) => l
                .checked_add(r)
                .ok_or(ExecutionError::IntegerOverflow("add", l.into(), r.into()))
                .map(Value::UInt),

            (Value::Float(l), Value::Float(r)) => Value::Float(l + r).into(),
''', '''            (Value::Float(l), Value::Float(r)) => Value::Float(l + r).into(),

            (Value::UInt(l), Value::UInt(r)) => l
                .checked_add(r)
                .ok_or(ExecutionError::IntegerOverflow("add", l.into(), r.into()))
                .map(Value::UInt),

            (Value::Int(l), Value::Int(r)) => l
                .checked_add(r)
                .ok_or(ExecutionError::IntegerOverflow("add", l.into(), r.into()))
                .map(Value::Int),
''')
neu('n_less_locals_renamed', 'C09 C07 C06 C02 C19', OBJ, '''                        operators::LESS => {
                            let left = Value::resolve(&call.args[0], ctx)?;
                            let right = Value::resolve(&call.args[1], ctx)?;
                            return Value::Bool(
                                left.partial_cmp(&right)
                                    .ok_or(ExecutionError::ValuesNotComparable(left, right))?
                                    == Ordering::Less,''', '''                        operators::LESS => {
                            let lhs = Value::resolve(&call.args[0], ctx)?;
                            let rhs = Value::resolve(&call.args[1], ctx)?;
                            return Value::Bool(
                                lhs.partial_cmp(&rhs)
                                    .ok_or(ExecutionError::ValuesNotComparable(lhs, rhs))?
                                    == Ordering::Less,''')
neu('n_unrelated_function_added', ALLP, FUN, '''pub fn bytes(value: Arc<String>) -> Result<Value> {''', '''/// Returns its argument unchanged.
pub fn identity(value: Value) -> Result<Value> {
    Ok(value)
}

pub fn bytes(value: Arc<String>) -> Result<Value> {''')
neu('n_registrations_reordered', 'C20 C16 C05 C07 C02', CTXF, '''        ctx.add_function("size", functions::size);
        ctx.add_function("max", functions::max);''', '''        ctx.add_function("max", functions::max);
        ctx.add_function("size", functions::size);''')
neu('n_and_branches_flipped', 'C06 C07 C02 C19 C09', OBJ, '''                            return if !left.to_bool() {
                                Value::Bool(false)
                            } else {
                                let right = Value::resolve(&call.args[1], ctx)?;
                                Value::Bool(right.to_bool())
                            }
                            .into();''', '''                            return if left.to_bool() {
                                let right = Value::resolve(&call.args[1], ctx)?;
                                Value::Bool(right.to_bool())
                            } else {
                                Value::Bool(false)
                            }
                            .into();''')
neu('n_get_variable_if_let', 'C11 C19 C02 C05', CTXF, '''            Context::Child { variables, parent } => match variables.get(&name) {
                Some(value) => Ok(value.clone()),
                None => parent.get_variable(name),
            },''', '''            Context::Child { variables, parent } => {
                if let Some(value) = variables.get(&name) {
                    Ok(value.clone())
                } else {
                    parent.get_variable(name)
                }
            }''')
neu('n_references_order_changed', 'C19 C01', REF, '''                comp.iter_range._references(variables, functions);
                comp.accu_init._references(variables, functions);
                comp.loop_cond._references(variables, functions);
                comp.loop_step._references(variables, functions);
                comp.result._references(variables, functions);''', '''                comp.result._references(variables, functions);
                comp.loop_step._references(variables, functions);
                comp.loop_cond._references(variables, functions);
                comp.accu_init._references(variables, functions);
                comp.iter_range._references(variables, functions);''')
neu('n_int_guard_reordered', 'C13 C02', FUN, '''            if v.is_nan() || v >= i64::MAX as f64 || v < i64::MIN as f64 {''', '''            if v < i64::MIN as f64 || v.is_nan() || v >= i64::MAX as f64 {''')
neu('n_int_guard_positive_form', 'C13 C02', FUN, '''            if v.is_nan() || v >= i64::MAX as f64 || v < i64::MIN as f64 {
                return Err(ftx.error("integer overflow"));
            }
            Value::Int(v as i64)''', '''            if v >= i64::MIN as f64 && v < i64::MAX as f64 {
                Value::Int(v as i64)
            } else {
                return Err(ftx.error("integer overflow"));
            }''')
neu('n_escape_arms_reordered', 'C12 C01', PRS, '''                        'a' => '\\u{07}',
                        'b' => '\\u{08}',
                        'v' => '\\u{0B}',
                        'f' => '\\u{0C}',
                        'n' => '\\n',
                        'r' => '\\r',
                        't' => '\\t',
                        '\\\\' => c2,''', '''                        't' => '\\t',
                        'r' => '\\r',
                        'n' => '\\n',
                        'f' => '\\u{0C}',
                        'v' => '\\u{0B}',
                        'b' => '\\u{08}',
                        'a' => '\\u{07}',
                        '\\\\' => c2,''')
neu('n_serialize_u8_direct', 'C17', SERF, '''    fn serialize_u8(self, v: u8) -> Result<Value> {
        self.serialize_u64(u64::from(v))
    }

    fn serialize_u16(self, v: u16) -> Result<Value> {
        self.serialize_u64(u64::from(v))
    }

    fn serialize_u32(self, v: u32) -> Result<Value> {
        self.serialize_u64(u64::from(v))
    }

    fn serialize_u64(self, v: u64) -> Result<Value> {
        Ok(Value::UInt(v))''', '''    fn serialize_u8(self, v: u8) -> Result<Value> {
        Ok(Value::UInt(u64::from(v)))
    }

    fn serialize_u16(self, v: u16) -> Result<Value> {
        self.serialize_u64(u64::from(v))
    }

    fn serialize_u32(self, v: u32) -> Result<Value> {
        self.serialize_u64(u64::from(v))
    }

    fn serialize_u64(self, v: u64) -> Result<Value> {
        Ok(Value::UInt(v))''')
neu('n_all_expander_statements_reordered', 'C10 C04 C19 C01', MAC, '''    arguments.insert(0, helper.next_expr(Expr::Ident(result_binding.clone())));
    let step = helper.next_expr(Expr::Call(CallExpr {
        func_name: operators::LOGICAL_AND.to_string(),
        target: None,
        args: arguments,
    }));

    let result = helper.next_expr(Expr::Ident(result_binding.clone()));
''', '''    let result = helper.next_expr(Expr::Ident(result_binding.clone()));
    arguments.insert(0, helper.next_expr(Expr::Ident(result_binding.clone())));
    let step = helper.next_expr(Expr::Call(CallExpr {
        func_name: operators::LOGICAL_AND.to_string(),
        target: None,
        args: arguments,
    }));
''')
neu('n_json_arms_reordered', 'C18', JSF, '''            Value::Int(i) => i.into(),
            Value::UInt(u) => u.into(),
            Value::Float(f) => f.into(),''', '''            Value::Float(f) => f.into(),
            Value::UInt(u) => u.into(),
            Value::Int(i) => i.into(),''')
neu('n_units_two_letter_reordered', 'C15', DURF, '''        map(tag("ms"), |_| Unit::Millisecond),
        map(tag("us"), |_| Unit::Microsecond),''', '''        map(tag("ns"), |_| Unit::Nanosecond),
        map(tag("us"), |_| Unit::Microsecond),''', DURF, '''        map(tag("ns"), |_| Unit::Nanosecond),
        map(char('h'), |_| Unit::Hour),''', '''        map(tag("ms"), |_| Unit::Millisecond),
        map(char('h'), |_| Unit::Hour),''')
neu('n_string_index_helper_extracted', 'C14 C02 C07 C06 C19', OBJ, '''                                (Value::String(str), Value::Int(idx)) => {
                                    let start = idx as usize;
                                    match start.checked_add(1).and_then(|end| str.get(start..end)) {
                                        None => Ok(Value::Null),
                                        Some(str) => Ok(Value::String(str.to_string().into())),
                                    }
                                }''', '''                                (Value::String(str), Value::Int(idx)) => index_string(&str, idx),''', OBJ, '''impl Value {
    pub fn resolve_all(expr: &[Expression], ctx: &Context) -> ResolveResult {''', '''fn index_string(str: &str, idx: i64) -> ResolveResult {
    let start = idx as usize;
    match start.checked_add(1).and_then(|end| str.get(start..end)) {
        None => Ok(Value::Null),
        Some(str) => Ok(Value::String(str.to_string().into())),
    }
}

impl Value {
    pub fn resolve_all(expr: &[Expression], ctx: &Context) -> ResolveResult {''')
neu('n_timestamp_accessor_let_binding', 'C16 C02', FUN, '''        Ok((this.hour() as i32).into())''', '''        let hour = this.hour();
        Ok((hour as i32).into())''')
neu('n_parse_error_check_as_match', 'C01', PAR, '''        if errors.is_empty() {
            r.map_err(|e| ParseErrors { errors: vec![e] })
        } else {''', '''        if !errors.is_empty() {''', PAR, '''                    .collect(),
            })
        }
    }
''', '''                    .collect(),
            })
        } else {
            r.map_err(|e| ParseErrors { errors: vec![e] })
        }
    }
''')

def main():
    only = sys.argv[1:]
    for d in ('break', 'neutral'):
        dd = os.path.join(os.path.dirname(HERE), 'mutants', d)
        os.makedirs(dd, exist_ok=True)
        for f in os.listdir(dd):
            if f.endswith('.patch') and not only:
                os.remove(os.path.join(dd, f))
    sys.path.insert(0, HERE)
    import mutant
    for kind, name, props, triples in M:
        if only and not any(name.startswith(o) for o in only):
            continue
        flat = list(triples)
        try:
            mutant.make(kind, name, props, flat)
        except SystemExit as e:
            print('FAILED', name, e)

# ---- rules added after the second seeded round
brk('c12_bytes_greedy_trim', 'C12', PAR, '''        let content = &body[quotes..body.len() - quotes];''', '''        let content = body.trim_matches(if body.starts_with('\\'') { '\\'' } else { '"' });
        let _ = quotes;''')
brk('c14_has_via_member', 'C14', OBJ, '''                            for key in map.map.deref().keys() {
                                if key.to_string().eq(&select.field) {
                                    return Ok(Value::Bool(true));
                                }
                            }
                            Ok(Value::Bool(false))''', '''                            let _ = map;
                            Ok(Value::Bool(left.clone().member(&select.field, ctx).is_ok()))''')
neu('n_has_via_map_get', 'C14 C02 C07', OBJ, '''                            for key in map.map.deref().keys() {
                                if key.to_string().eq(&select.field) {
                                    return Ok(Value::Bool(true));
                                }
                            }
                            Ok(Value::Bool(false))''', '''                            Ok(Value::Bool(
                                map.get(&Key::String(Arc::new(select.field.clone()))).is_some(),
                            ))''')
brk('c16_sub_via_epoch_nanos', 'C16', OBJ, '''            (Value::Timestamp(l), Value::Timestamp(r)) => Value::Duration(l - r).into(),''', '''            (Value::Timestamp(l), Value::Timestamp(r)) => Value::Duration(chrono::Duration::nanoseconds(
                l.timestamp_nanos_opt()
                    .unwrap_or_default()
                    .saturating_sub(r.timestamp_nanos_opt().unwrap_or_default()),
            ))
            .into(),''')
neu('n_sub_signed_duration_since', 'C16 C15 C02', OBJ, '''            (Value::Timestamp(l), Value::Timestamp(r)) => Value::Duration(l - r).into(),''', '''            (Value::Timestamp(l), Value::Timestamp(r)) => {
                Value::Duration(l.signed_duration_since(r)).into()
            }''')
brk('c17_timestamp_as_utc', 'C17', SERF, '''        Ok(v.parse::<chrono::DateTime<FixedOffset>>()
            .map_err(|e| SerializationError::SerdeError(e.to_string()))?
            .into())''', '''        Ok(v.parse::<chrono::DateTime<chrono::Utc>>()
            .map_err(|e| SerializationError::SerdeError(e.to_string()))?
            .fixed_offset()
            .into())''')
brk('c16_string_in_utc', 'C16', FUN, '''        Value::Timestamp(t) => Value::String(t.to_rfc3339().into()),''', '''        Value::Timestamp(t) => Value::String(t.to_utc().to_rfc3339().into()),''')
brk('c09_float_total_cmp', 'C09', OBJ, '''            (Value::Float(a), Value::Float(b)) => a.partial_cmp(b),''', '''            (Value::Float(a), Value::Float(b)) if a.is_nan() || b.is_nan() => None,
            (Value::Float(a), Value::Float(b)) => Some(a.total_cmp(b)),''')
brk('c09_float_eq_bits', 'C09', OBJ, '''            (Value::Float(a), Value::Float(b)) => a == b,''', '''            (Value::Float(a), Value::Float(b)) => a.to_bits() == b.to_bits(),''')
brk('c09_int_cmp_swapped', 'C09', OBJ, '''            (Value::Int(a), Value::Int(b)) => Some(a.cmp(b)),''', '''            (Value::Int(a), Value::Int(b)) => Some(b.cmp(a)),''')
neu('n_float_cmp_nan_explicit', 'C09 C02', OBJ, '''            (Value::Float(a), Value::Float(b)) => a.partial_cmp(b),''', '''            (Value::Float(a), Value::Float(b)) if a.is_nan() || b.is_nan() => None,
            (Value::Float(a), Value::Float(b)) => a.partial_cmp(b),''')
brk('c15_sum_in_i64', 'C15', DURF, '''        .try_fold(Duration::zero(), |acc, next| acc.checked_add(next))
        .ok_or(nom::Err::Failure(Error::new(i, ErrorKind::TooLarge)))?;''', '''        .try_fold(0i64, |acc, next| acc.checked_add(next.num_nanoseconds()?))
        .map(Duration::nanoseconds)
        .ok_or(nom::Err::Failure(Error::new(i, ErrorKind::TooLarge)))?;''')
brk('c04_relation_rewritten', 'C04', PAR, '''                            Some(op) => {
                                self.global_call_or_macro(op_id, op.to_string(), vec![lhs, rhs])
                            }
                        }
                    } else {
                        self.report_error::<ParseError, _>(
                            ctx.start().deref(),
                            None,
                            format!("Incomplete `RelationContext`''', '''                            Some(operators::NOT_EQUALS) => {
                                let eq = self.global_call_or_macro(
                                    op_id,
                                    operators::EQUALS.to_string(),
                                    vec![lhs, rhs],
                                );
                                self.helper.next_expr_for(
                                    op_id,
                                    Expr::Call(CallExpr {
                                        func_name: operators::LOGICAL_NOT.to_string(),
                                        target: None,
                                        args: vec![eq],
                                    }),
                                )
                            }
                            Some(op) => {
                                self.global_call_or_macro(op_id, op.to_string(), vec![lhs, rhs])
                            }
                        }
                    } else {
                        self.report_error::<ParseError, _>(
                            ctx.start().deref(),
                            None,
                            format!("Incomplete `RelationContext`''')
brk('c13_hex_sign_unrecognised', 'C13', PAR, '''        } else if let Some(string) = string.strip_prefix("-0x") {
            // `from_str_radix` wants the sign directly in front of the digits
            i64::from_str_radix(&format!("-{string}"), 16)
        } else {''', '''        } else {''')
brk('c13_double_overflow_unchecked', 'C13', FUN, '''            if parsed.is_infinite()
                && !spelled.eq_ignore_ascii_case("inf")
                && !spelled.eq_ignore_ascii_case("infinity")
            {''', '''            if false && spelled.is_empty() {''')
neu('n_double_overflow_is_finite_form', 'C13 C02', FUN, '''            if parsed.is_infinite()
                && !spelled.eq_ignore_ascii_case("inf")
                && !spelled.eq_ignore_ascii_case("infinity")
            {''', '''            let names_infinity =
                spelled.eq_ignore_ascii_case("inf") || spelled.eq_ignore_ascii_case("infinity");
            if !parsed.is_finite() && !parsed.is_nan() && !names_infinity {''')
brk('c15_sign_from_seconds', 'C15', DURF, '''    let nanos = i128::from(d.num_seconds()) * 1_000_000_000 + i128::from(d.subsec_nanos());
    let neg = nanos < 0;''', '''    let nanos = i128::from(d.num_seconds()) * 1_000_000_000 + i128::from(d.subsec_nanos());
    let neg = d.num_seconds() < 0;''')
brk('c09_uint_int_eq_cast', 'C09', OBJ, '''            (Value::UInt(a), Value::Int(b)) => a
                .to_owned()
                .try_into()
                .map(|a: i64| a == *b)
                .unwrap_or(false),''', '''            (Value::UInt(a), Value::Int(b)) => *a == *b as u64,''')
neu('n_int_uint_eq_guarded_cast', 'C09 C02', OBJ, '''            (Value::Int(a), Value::UInt(b)) => a
                .to_owned()
                .try_into()
                .map(|a: u64| a == *b)
                .unwrap_or(false),''', '''            (Value::Int(a), Value::UInt(b)) => *a >= 0 && *a as u64 == *b,''')
brk('c01_map_guard_precedence', 'C01 C10', MAC, '''(args.len() == 2 || args.len() == 3) && target.is_some()''', '''args.len() == 2 || args.len() == 3 && target.is_some()''')
_TQ = '    for (quote, delimiter) in [(\'\\\'\', "\'\'\'"), (\'"\', "\\"\\"\\"")] {\n'
brk('c12_triple_quotes_unrecognised', 'C12', 'antlr/src/parse.rs', _TQ + '        let content = body\n            .strip_prefix(delimiter)\n            .and_then(|rest| rest.strip_suffix(delimiter));\n        if let Some(content) = content {\n            if raw {\n                return Ok(content.to_string());\n            }\n            let mut chars = content.chars().enumerate();\n            return parse_quoted_string(s, &mut chars, res, quote, true);\n        }\n    }\n', '    let _ = (raw, body);\n')
brk('c12_triple_double_forgotten', 'C12', 'antlr/src/parse.rs', _TQ, '    for (quote, delimiter) in [(\'\\\'\', "\'\'\'")] {\n')
brk('c04_list_literal_reversed', 'C04', PAR, '''                    list.push(self.visit(exp.as_ref()));''', '''                    list.insert(0, self.visit(exp.as_ref()));''')
brk('c04_map_value_from_other_entry', 'C04', PAR, '''            let value = self.visit(vals[i].as_ref());''', '''            let value = self.visit(vals[vals.len() - 1 - i].as_ref());''')
brk('c04_select_test_set', 'C04', PAR, '''                    operand: Box::new(operand),
                    field,
                    test: false,''', '''                    operand: Box::new(operand),
                    field,
                    test: true,''')
brk('c19_report_sets_crossed', 'C19', REF, '''        ExpressionReferences {
            variables,
            functions,
        }''', '''        ExpressionReferences {
            variables: functions,
            functions: variables,
        }''')
brk('c19_variables_skips_first', 'C19', REF, '''        self.variables.iter().copied().collect()''', '''        self.variables.iter().copied().skip(1).collect()''')
brk('c14_key_from_float', 'C14', OBJ, '''            Value::Bool(v) => Ok(Key::Bool(v)),
            _ => Err(self),''', '''            Value::Bool(v) => Ok(Key::Bool(v)),
            Value::Float(v) if v.fract() == 0.0 && v.abs() < 9e15 => Ok(Key::Int(v as i64)),
            _ => Err(self),''')
brk('c13_literal_uint_as_int', 'C13', OBJ, '''            Val::UInt(u) => Value::UInt(u),''', '''            Val::UInt(u) if u <= i64::MAX as u64 => Value::Int(u as i64),
            Val::UInt(u) => Value::UInt(u),''')
brk('c18_key_text_quoted', 'C18', OBJ, '''            Key::String(v) => write!(f, "{}", v),''', '''            Key::String(v) => write!(f, "\\"{}\\"", v),''')
neu('n_member_early_return', 'C14 C19 C02 C07', OBJ, '''        match (child, ctx.has_function(&name)) {
            (None, false) => ExecutionError::NoSuchKey(name).into(),
            (Some(child), _) => child.into(),
            (None, true) => Value::Function(name, Some(self.into())).into(),
        }''', '''        if let Some(child) = child {
            return child.into();
        }
        if ctx.has_function(&name) {
            Value::Function(name, Some(self.into())).into()
        } else {
            ExecutionError::NoSuchKey(name).into()
        }''')
neu('n_map_eq_as_ref', 'C09 C02', OBJ, '''        *self.map == *other.map''', '''        self.map.as_ref() == other.map.as_ref()''')
neu('n_add_variable_value_first', 'C11 C10 C05', 'interpreter/src/context.rs', '''        match self {
            Context::Root { variables, .. } => {
                variables.insert(name.into(), value.into());
            }
            Context::Child { variables, .. } => {
                variables.insert(name.into(), value.into());
            }
        }
    }

    // todo! The Into<String> here''', '''        let value: Value = value.into();
        let variables = match self {
            Context::Root { variables, .. } => variables,
            Context::Child { variables, .. } => variables,
        };
        variables.insert(name.into(), value);
    }

    // todo! The Into<String> here''')
neu('n_all_arguments_collect', 'C20 C07 C02', 'interpreter/src/resolvers.rs', '''        let mut args = Vec::with_capacity(ctx.args.len());
        for arg in ctx.args.iter() {
            args.push(Value::resolve(arg, ctx.ptx)?);
        }
        Ok(Value::List(args.into()))''', '''        let args = ctx
            .args
            .iter()
            .map(|arg| Value::resolve(arg, ctx.ptx))
            .collect::<Result<Vec<_>, _>>()?;
        Ok(Value::List(args.into()))''')
neu('n_key_display_direct', 'C18 C17 C14', OBJ, '''            Key::Int(v) => write!(f, "{}", v),''', '''            Key::Int(v) => Display::fmt(v, f),''')
neu('n_negate_arms_reordered', 'C08 C02', OBJ, '''                                Value::Float(f) => Ok(Value::Float(-f)),
                                value => {
                                    Err(ExecutionError::UnsupportedUnaryOperator("minus", value))
                                }''', '''                                value @ (Value::UInt(_) | Value::Bool(_)) => {
                                    Err(ExecutionError::UnsupportedUnaryOperator("minus", value))
                                }
                                Value::Float(f) => Ok(Value::Float(-f)),
                                value => {
                                    Err(ExecutionError::UnsupportedUnaryOperator("minus", value))
                                }''')
neu('n_visit_int_strip_sign_first', 'C13 C01 C04', PAR, '''        let val = match if let Some(string) = string.strip_prefix("0x") {
            i64::from_str_radix(string, 16)
        } else if let Some(string) = string.strip_prefix("-0x") {
            // `from_str_radix` wants the sign directly in front of the digits
            i64::from_str_radix(&format!("-{string}"), 16)
        } else {''', '''        let val = match if let Some(hex) = string.strip_prefix("-0x") {
            i64::from_str_radix(&format!("-{hex}"), 16)
        } else if let Some(hex) = string.strip_prefix("0x") {
            i64::from_str_radix(hex, 16)
        } else {''')
neu('n_parse_duration_zero_guard_len', 'C15 C02', DURF, '''    if i == "0" {''', '''    if i.len() == 1 && i.starts_with('0') {''')
neu('n_printer_is_negative', 'C15 C02', DURF, '''    let neg = nanos < 0;''', '''    let neg = nanos.is_negative();''')
neu('n_parse_duration_sign_let', 'C15 C02', DURF, '''    Ok((i, if neg.is_some() { -duration } else { duration }))''', '''    let signed = match neg {
        Some(()) => -duration,
        None => duration,
    };
    Ok((i, signed))''')
neu('n_select_built_in_a_let', 'C04 C14 C07 C01', PAR, '''            self.helper.next_expr(
                op.as_ref(),
                Expr::Select(SelectExpr {
                    operand: Box::new(operand),
                    field,
                    test: false,
                }),
            )''', '''            let select = SelectExpr {
                operand: Box::new(operand),
                field,
                test: false,
            };
            self.helper.next_expr(op.as_ref(), Expr::Select(select))''')
neu('n_list_literal_push_via_let', 'C04 C14 C07 C01', PAR, '''                    list.push(self.visit(exp.as_ref()));''', '''                    let element = self.visit(exp.as_ref());
                    list.push(element);''')
neu('n_int_cmp_ufcs', 'C09 C02', OBJ, '''            (Value::Int(a), Value::Int(b)) => Some(a.cmp(b)),''', '''            (Value::Int(a), Value::Int(b)) => Some(Ord::cmp(a, b)),''')
neu('n_report_variables_map_deref', 'C19', REF, '''        self.variables.iter().copied().collect()''', '''        self.variables.iter().map(|name| *name).collect()''')
neu('n_map_literal_key_typed', 'C14 C07 C02', OBJ, '''                    let key = Value::resolve(k, ctx)?
                        .try_into()
                        .map_err(ExecutionError::UnsupportedKeyType)?;''', '''                    let key: Key = match Value::resolve(k, ctx)?.try_into() {
                        Ok(key) => key,
                        Err(value) => return Err(ExecutionError::UnsupportedKeyType(value)),
                    };''')
neu('n_value_list_eq_as_slice', 'C09 C02', OBJ, '''            (Value::List(a), Value::List(b)) => **a == **b,''', '''            (Value::List(a), Value::List(b)) => a.as_slice() == b.as_slice(),''')
neu('n_comprehension_list_while_let', 'C10 C11 C07 C06 C19 C02', OBJ, '''                        for item in items.deref() {
                            if !Value::resolve(&comprehension.loop_cond, &ctx)?.to_bool() {
                                break;
                            }
                            ctx.add_variable_from_value(&comprehension.iter_var, item.clone());''', '''                        let mut elements = items.iter();
                        while let Some(item) = elements.next() {
                            if !Value::resolve(&comprehension.loop_cond, &ctx)?.to_bool() {
                                break;
                            }
                            ctx.add_variable_from_value(&comprehension.iter_var, item.clone());''')
neu('n_comprehension_cond_let', 'C10 C11 C07 C06 C02', OBJ, '''                        for key in map.map.deref().keys() {
                            if !Value::resolve(&comprehension.loop_cond, &ctx)?.to_bool() {
                                break;
                            }''', '''                        for key in map.map.deref().keys() {
                            let go_on = Value::resolve(&comprehension.loop_cond, &ctx)?.to_bool();
                            if !go_on {
                                break;
                            }''')
neu('n_json_map_key_format', 'C18 C17', 'interpreter/src/json.rs', '''                    obj.insert(k.to_string(), v.json()?);''', '''                    let member = v.json()?;
                    obj.insert(k.to_string(), member);''')
neu('n_resolve_all_collect', 'C20 C07 C02', OBJ, '''        let mut res = Vec::with_capacity(expr.len());
        for expr in expr {
            res.push(Value::resolve(expr, ctx)?);
        }
        Ok(Value::List(res.into()))''', '''        let res = expr
            .iter()
            .map(|expr| Value::resolve(expr, ctx))
            .collect::<Result<Vec<_>, _>>()?;
        Ok(Value::List(res.into()))''')
neu('n_timestamp_difference_let', 'C16 C15 C02', OBJ, '''            (Value::Timestamp(l), Value::Timestamp(r)) => Value::Duration(l - r).into(),''', '''            (Value::Timestamp(l), Value::Timestamp(r)) => {
                let difference = l - r;
                Value::Duration(difference).into()
            }''')
neu('n_comprehension_result_let', 'C10 C11 C19 C07', OBJ, '''                Value::resolve(comprehension.result.deref(), &ctx)
            }''', '''                let result = Value::resolve(comprehension.result.deref(), &ctx);
                result
            }''')


# ---- round 7 rules
brk('c04_logic_terms_sorted_by_id', 'C04 C06', PAR, '''    pub(crate) fn expr(mut self) -> IdedExpr {
        if self.terms.len() == 1 {''', '''    pub(crate) fn expr(mut self) -> IdedExpr {
        self.terms.sort_by_key(|t| matches!(t.expr, Expr::Call(_)));
        if self.terms.len() == 1 {''')
neu('n_logic_take_via_mem_replace', 'C04 C06 C01', PAR, '''            mem::take(&mut self.terms[mid])
        } else {
            self.balanced_tree(lo, mid - 1)''', '''            mem::replace(&mut self.terms[mid], IdedExpr::default())
        } else {
            self.balanced_tree(lo, mid - 1)''')
brk('c20_missing_arg_is_receiver', 'C20', MAG, '''    let idx = ctx.arg_idx;
    ctx.arg_idx += 1;
    ctx.resolve(Argument(idx))''', '''    let idx = ctx.arg_idx;
    ctx.arg_idx += 1;
    if idx >= ctx.args.len() {
        if let Some(this) = &ctx.this {
            return Ok(this.clone());
        }
    }
    ctx.resolve(Argument(idx))''')
brk('c15_sub_through_i64_nanos', 'C15', OBJ, '''            (Value::Duration(l), Value::Duration(r)) => l
                .checked_sub(&r)
                .ok_or(ExecutionError::IntegerOverflow("sub", l.into(), r.into()))
                .map(Value::Duration),''', '''            (Value::Duration(l), Value::Duration(r)) => l
                .num_nanoseconds()
                .zip((-r).num_nanoseconds())
                .and_then(|(a, b)| a.checked_add(b))
                .map(chrono::Duration::nanoseconds)
                .ok_or(ExecutionError::IntegerOverflow("sub", l.into(), r.into()))
                .map(Value::Duration),''')


if __name__ == '__main__':
    main()
