#!/usr/bin/env python3
"""Behaviour-preserving refactorings written by fresh sub-agents (given one source area each, nothing from /verif).

  neutral.py import <id> <outdir>    copy patch.diff / notes.md into /verif/neutral_seeded/<id>/
  neutral.py eval <id> [--tests]     apply to a scratch copy of /repo, run every claimed check (and optionally the repo tests);
                                     every check must stay silent
"""
import sys, os, json, shutil
HERE = os.path.dirname(os.path.dirname(os.path.abspath(__file__)))
sys.path.insert(0, os.path.join(HERE, 'tools'))
DIR = os.path.join(HERE, 'neutral_seeded')
ALL = ['C01', 'C02', 'C04', 'C05', 'C06', 'C07', 'C08', 'C09', 'C10', 'C11', 'C12', 'C13', 'C14', 'C15', 'C16', 'C17', 'C18', 'C19', 'C20']


def main():
    a = sys.argv[1:]
    if a[0] == 'import':
        d = os.path.join(DIR, a[1])
        os.makedirs(d, exist_ok=True)
        shutil.copy(os.path.join(a[2], 'patch.diff'), os.path.join(d, 'patch.diff'))
        if os.path.exists(os.path.join(a[2], 'notes.md')):
            shutil.copy(os.path.join(a[2], 'notes.md'), os.path.join(d, 'agent_notes.md'))
        json.dump({'id': a[1], 'source': 'fresh sub-agent asked for a strictly behaviour-preserving refactoring of one source area'}, open(os.path.join(d, 'meta.json'), 'w'), indent=1)
        print('imported', a[1])
    elif a[0] == 'eval':
        import mutant
        d = os.path.join(DIR, a[1])
        r = mutant.run(os.path.join(d, 'patch.diff'), tests='--tests' in a, props=ALL)
        m = json.load(open(os.path.join(d, 'meta.json')))
        m['evaluation'] = {'alarms': {p: c['violations'][:6] for p, c in r.get('checks', {}).items() if c['rc'] != 0}, 'checks_run': ALL, 'tests': r.get('tests'), 'error': r.get('error')}
        json.dump(m, open(os.path.join(d, 'meta.json'), 'w'), indent=1)
        print(json.dumps(m['evaluation'], indent=1))


if __name__ == '__main__':
    main()
