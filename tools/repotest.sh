#!/bin/bash
# runs the repository's own test suite (the pinned 67 tests) and prints a summary
cd "${1:-/repo}" && CARGO_NET_OFFLINE=true cargo test --workspace --no-fail-fast --offline 2>&1 | grep -E "^test result|FAILED|failed|panicked" | head -20
