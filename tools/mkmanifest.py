#!/usr/bin/env python3
"""Regenerates /verif/MANIFEST.json from the table below (claimed checks) and
lists every other property under not_applicable with its reason."""
import json, os
HERE = os.path.dirname(os.path.dirname(os.path.abspath(__file__)))
props = [json.loads(l) for l in open(os.path.join(HERE, 'properties.jsonl'))]

NOT_BUILT = 'check not built yet (framework under construction; see DESIGN.md §11 build order)'
NA = {
    'C03': 'agreement of every well-typed program with the reference semantics is a relation between two evaluators over run-time values; no sound static argument in reach bounds it. Its shape-visible clauses are decided under C06, C07, C08, C10, C14 (DESIGN.md §10)',
}

CHECKS = {
    'C01': dict(
        category='other', design_ref='DESIGN.md §5 C01',
        technique='MIR path/ordering rules over Parser::parse (dominance, mandatory branch edges, provenance of the shared error vector) + lexer/parser ATN facts + impl table + audited panic ledger of the hand-written parser',
        text='Decides the structural necessary conditions of "program or positioned errors, never a panic": Ok only when the merged error vector is empty; listeners with the shared vector installed before start(); the tree is walked only when no syntax error was recorded (error contexts have a panicking default visitor); start consumes EOF in the ATN and in the generated code; placeholders only after a recorded error; every panic edge of the hand-written parser audited; rendering starts with a literal. Hangs, stack depth and the numeric line/column values are not decided.',
        note='antlr4rust and the generated lexer/parser are trusted apart from the extracted facts'),
    'C04': dict(
        category='other', design_ref='DESIGN.md §5 C04',
        technique='grammar-automaton analysis (serialized ATN decoded from the compiled program, path enumeration per rule) + agreement of generated Rust constants with it + provenance rules over the visitor',
        text='Decides: rule nesting and `?:` right associativity, flat `||`/`&&` lists, operator classes of relation/calc with right operand at level n+1 and multiplicative above additive in the ATN and identically in the generated Rust, operand order of every call node the visitor builds, operator text table, that each visitor method returns only the node built by its designated constructor (a visited child or the error placeholder otherwise), label binding in source order, source order of logical chains through the balanced tree (no reordering call in the chain builder, no inspection of the built operands), prefix parity and that no visit result is dropped, macros placing receiver/arguments unchanged. The round trip itself is value-level and not decided. The parser never matches on an already built Expr (two macro argument checks excepted); literal, select and identifier nodes take their parts from their own children in source order.',
        note='ATN format v3 and antlr4rust adaptive prediction trusted; reference table from the property'),
    'C02': dict(
        category='other', design_ref='DESIGN.md §5 C02, §4 analysis B',
        technique='panic-edge audit over MIR: Assert terminators + deny-listed panicking APIs, discharged by dominance/length/constant guard rules or a reviewed position-free ledger; producer rules over aggregates',
        text='Every construct through which the interpreter\'s own code can panic is an obligation discharged by an automatic guard rule or an audited ledger entry; any new edge is reported with function, kind and operand. Conservative direction (no unaudited edge => no panic from repository code modulo the deny-list), which is the only sound direction for a never-panics claim. Termination/stack depth are not decided.',
        note='deny-list completeness, dependency internals, host closures, allocation failure and recursion depth are outside the claim'),
    'C17': dict(
        category='other', design_ref='DESIGN.md §5 C17',
        technique='provenance normal forms of every serde method (sibling delegations substituted) compared with a reference shape table; panic-edge audit of ser.rs; marker-name agreement between producers and consumer',
        text='The value returned by every Serializer/KeySerializer/compound method, reduced to a normal form, equals the shape table of the property (integer kinds, containers, variants, option/unit, marker newtypes); element and entry methods store the converted element/key/value; ser.rs has no unaudited panic edge; the Duration/Timestamp wrappers and the time serializer agree on names and exact components; no zone conversion in ser.rs and the timestamp payload is parsed as DateTime<FixedOffset>. Commutation with serde_json is not decided. Producer rule P1 (json feature): the export arm table and the plain key text (C18 R1/R4) for the commutation clause.',
        note='serde provided methods and the reference table trusted'),
    'C18': dict(
        category='other', design_ref='DESIGN.md §5 C18',
        technique='decision-tree arm table with provenance predicates, use/def rule for nested results, panic-edge audit',
        text='Per Value variant the export arm is exactly the documented mapping (conversions by serde_json From of the payload without casts, base64 STANDARD, RFC 3339, nanosecond count with overflow error, catch-all error); nested json() results are `?`-propagated or collected into a Result; json.rs has no panic edge. The import-back round trip is not decided. Producer rule P1 re-checks the serializer shape table and store-every-entry effects used by the import leg (C17 R1). Display for Key is the plain payload text (member names).',
        note='analysed with the json feature; serde_json/base64/chrono behaviour trusted'),
    'C16': dict(
        category='other', design_ref='DESIGN.md §5 C16',
        technique='table rule (registration name -> function -> chrono accessor chain with receiver provenance), API rules for comparison and checked arithmetic',
        text='Decides: each accessor name is registered to a function returning exactly the documented chrono field accessor applied to the receiver at its own offset; equality/ordering call DateTime\'s instant-based eq/cmp; timestamp +/- duration are checked with None -> error, timestamp - timestamp is the instant difference computed by chrono (no epoch counts); no call anywhere in the interpreter converts a DateTime to another zone or is instantiated with Utc/Local; timestamp()/string() are RFC 3339 parse/print of the whole value. Calendar correctness and RFC 3339 round trips are chrono\'s and not decided.',
        note='chrono semantics trusted'),
    'C15': dict(
        category='other', design_ref='DESIGN.md §5 C15',
        technique='use/def rule on the parser remainder, API deny/require rules (nom float recognisers, chrono panicking operators), type rule (no float-typed local, no narrowing cast in the term conversion), provenance equality of the power-of-ten scale and the parsed digits, printer-bytes vs parser-unit agreement, unit table by constant propagation',
        text='Decides: the unparsed remainder leads to an error; the number parser is nom\'s digit recogniser, not one of its float parsers, and the term reaches its nanosecond count without any binary float or narrowing cast, the fraction scaled by 10^len of the very digits parsed; every unit the printer emits (µs) is accepted by the parser; the sign is applied to the checked TimeDelta sum (so the most negative duration parses back); duration arithmetic in the operator impls and the parser uses chrono checked_* with None -> error and never an i64 unit count; the printer takes the magnitude by unsigned_abs with no sign-losing cast or overflowing multiplication; unit table and longest-match order; a float->int cast of a parsed term, if any, is range-guarded. Digit-exact Go rendering and the round trip are value-level and not decided.',
        note='nom/chrono documented behaviour trusted for the named APIs'),
    'C12': dict(
        category='other', design_ref='DESIGN.md §5 C12',
        technique='abstract interpretation of the escape branch of both decoders for every ASCII escape character, compared with the specification table and with the lexer ATN (decoded from the generated source)',
        text='Only the escape-table clause: for each decoder and each ASCII character the code after a backslash is classified on every path (appends one constant code point / n hex digits / octal / error); the table must equal the CEL specification and accept exactly what the lexer ATN admits; helpers use radix 16/8, the stated digit counts and the 0o377 bound; bytes reject \\u/\\U; raw strings must not process backslashes; invalid code points are errors. Two disagreements pinned by existing tests are known findings. Bytes delimiters: every shape the lexer admits is stripped exactly (no constant-offset slice for one shape only, no greedy trim* of literal text), raw prefix recognised. The lexer is fed the source parameter itself; triple-quoted string shapes are recognised; producer rule P1: literal nodes come only from the literal visitors (C04 R7/R9).',
        note='reference table tables/reference/escapes.json and the embedded lexer ATN trusted'),
    'C20': dict(
        category='other', design_ref='DESIGN.md §5 C20',
        technique='provenance/signature-table rules over extractors, registry and call site + rustc compile(-fail) witnesses for arities and parameter types',
        text='This applies one conversion to receiver or first argument and is the first parameter of every built-in using it (table from the resolved generic arguments of the 24 registrations), no extractor indexes the argument list blindly, add is an unconditional insert and lookups walk to the root, 20 adapters exist and rustc accepts arities 0-9 / rejects arity 10 and unsupported types, the call site passes receiver, unevaluated arguments, name and a zero cursor; FromValue accepts exactly its own variant; the evaluator compares the call name with operator names only, so every other name goes through the registry. Only extractors and resolvers read the raw FunctionContext fields, each only the fields of its role (value extractors never the receiver).',
        note='bodies of host functions are outside the claim'),
    'C10': dict(
        category='other', design_ref='DESIGN.md §5 C10',
        technique='constant-tree propagation (abstract interpretation of the loop-free macro expanders) compared with reference expansions; MIR loop-shape rules with SCCP for the fold',
        text='The expansion of all/exists/exists_one/map(2,3)/filter is extracted for every admitted arity by abstract interpretation (finite trees, exact Vec sequences, all paths) and must equal the cel-go reference template; find_expander is enumerated over its whole decision partition; the evaluator\'s fold loop must have the cond -> exit-on-false -> bind item -> step -> bind accumulator shape, result after the loop, errors aborting, forward iteration; @not_strictly_false table. That the expanded operators compute the right values is C06/C08. Producer rules P1: macros expand around their operands (C04 R6/R9) and re-binding a scope variable always writes (C11 R2/R4).',
        note='reference table tables/reference/macros.json trusted; expanders must stay loop-free with modelled Vec operations (else fail closed)'),
    'C11': dict(
        category='other', design_ref='DESIGN.md §5 C11',
        technique='provenance/dominance rules over Context accessors and the comprehension arm + rustc compile_fail witnesses (E0502, E0597)',
        text='Lookup consults the own map first and the parent only on a miss; writes go only to the scope\'s own map; the comprehension evaluates range/init in the outer scope before the inner scope exists and cond/step/result in the inner scope with all writes targeting it; function and variable namespaces use disjoint fields; rustc rejects mutating a borrowed parent or outliving it. The sequence semantics follows from these for any sequence of operations. Every non-error path of add_variable/add_variable_from_value inserts the given value.',
        note='needs C05 O2 (no interior mutability in Context)'),
    'C13': dict(
        category='other', design_ref='DESIGN.md §5 C13',
        technique='interval + NaN-flag abstract interpretation over mandatory branch edges for float->int casts; API/table rules for literal visitors and conversion built-ins',
        text='Decides: every float->integer cast in the built-ins is dominated by guards that exclude NaN and establish the half-open range of the target; int<->uint conversion uses propagated try_into; literal visitors take the value from str::parse/from_str_radix(16) of the right type with the error reported, finite doubles only, no casts/defaults; conversion built-ins pair Display/FromStr of matching types. Round-trips are delegated to std and not decided. Signed hex spellings are recognised, double(string) rejects overflow; producer rule P1: no constant folding in the parser (C04 R5/R7/R9). The Val->Value literal table keeps kind and payload.',
        note='IEEE/`as` semantics and std parse/Display trusted'),
    'C09': dict(
        category='other', design_ref='DESIGN.md §5 C09',
        technique='MIR table/decision-tree rules + cast rule with interval/NaN abstract interpretation over dominating branch edges',
        text='Decides: the relation-operator table (partial_cmp -> bool per operator, None -> ValuesNotComparable, != is the provided negation of ==), orderable pairs are equatable pairs, no lossy int->float cast feeds a comparison and the float->int casts of the exact comparison helpers are NaN- and range-guarded, orientation of the mixed arms, same-kind arms compare (self, other) payloads with the own order of the kind (IEEE partial_cmp/== for doubles, never total_cmp/to_bits), min/max fold polarity. Transitivity/trichotomy over all values are not decided. Equality of Map/Key is the derived structural one; int-to-int casts in comparisons are range-guarded; producer rule P1 re-checks the parser-side construction of relation nodes (C04).',
        note='std Ord/PartialOrd of primitives and derived structural equality trusted'),
    'C14': dict(
        category='other', design_ref='DESIGN.md §5 C14',
        technique='who-calls rule over resolved call sites with key-provenance classification; shape rules for Map::get, index and `in` arms',
        text='Decides the lookup-agreement clause: every lookup of a possibly numeric key on a CEL map goes through Map::get (the int/uint cross lookup), Map::get tries the exact key first and converts with try_from, list indexing uses get -> Null, `in` on lists is contains, map literals insert every evaluated entry; list/string `+` appends rhs to a copy-on-write view of self in order and size() is len() of the own payload (additivity then follows from std contracts); has(m.f) consults only the keys of the map (no member()/registry fallback). Producer rule P1 re-checks the parser-side construction of index, `in`, select and literal nodes (C04 R3/R7/R8/R9). Value<->Key conversions keep kind and payload; in m.k the method-reference fallback is built only when the key is absent.',
        note='std HashMap/slice contracts trusted; string/bool keys have no numeric twin'),
    'C19': dict(
        category='other', design_ref='DESIGN.md §5 C19',
        technique='type-driven traversal completeness (ADT field enumeration vs provenance of recursive calls) + source/sink agreement + operator-arm reachability',
        text='Every expression-typed field of every Expr variant (computed from the type definitions) is visited by the reference collector; the evaluator\'s two UndeclaredReference sources name exactly what the collector inserts (Ident names not starting with @, call.func_name); accumulators are @-prefixed; every operator the parser emits has an evaluator arm at its arity from which the registry is unreachable; references() takes no context.',
        note='names looked up by host functions are outside the claim'),
    'C06': dict(
        category='other', design_ref='DESIGN.md §5 C06',
        technique='MIR path rule: sparse conditional constant propagation under an assumed to_bool(left) + CFG reachability of evaluation sites',
        text='For the `&&`, `||`, `?:` arms of the evaluator the skipped operand\'s evaluation site is CFG-unreachable once to_bool(left) is fixed to the deciding value, reachable otherwise, never before the test and never in an operator-agnostic prelude. A statement about every path of the evaluator, hence about every program; not a proof of the whole property because it is intra-procedural (inlining bound 0) and trusts MIR construction. Producer rule P1 re-checks the parser-side construction of `?:` and logical chains (C04 R3/R4/R7/R9).',
        note='guard must be a boolean function of Value::to_bool(left) inside Value::resolve; anything else fails closed; macros expand to these operators (C10)'),
    'C07': dict(
        category='other', design_ref='DESIGN.md §5 C07',
        technique='MIR path-sequence rules: CFG reachability/dominance between provenance-identified evaluation sites, extractor and adapter shape rules, who-may-call rule',
        text='Decides the structural clauses: nothing is evaluated before the lazy function dispatch, sites of one node are ordered by argument index and not re-entered without advancing an iterator, extractors consume arguments one by one, only the evaluator layer calls resolve, the 20 adapters extract C1..Cn in order, and the hand-written parser never places a copy of a sub-expression into the tree. "Bounded work" is the consequence and is not measured. A call node is dispatched at most once and the evaluator copies only call.args; producer rule P1 re-checks the parser-side construction of calls and literals (C04 R3/R8/R9).',
        note='host functions using Arguments together with positional extractors or the public FunctionContext fields are outside the claim; std iterator contracts trusted'),
    'C08': dict(
        category='other', design_ref='DESIGN.md §5 C08',
        technique='MIR operator whitelist + provenance-checked sibling table over the five arithmetic impls and unary minus',
        text='No raw integer arithmetic or non-checked integer method in the arithmetic impls/unary minus; each (trait, kind) uses checked_<same op> with (self,rhs) operand order and Some->same kind / None->expected error; Int Div/Rem test for zero first; no numeric casts or mixed numeric arms. With std\'s checked_* contract this implies exact-or-error for all operands. Producer rule P1 re-checks the parser-side construction of arithmetic and unary-minus nodes (C04 R3/R5/R7/R9). No successful result hands an operand back or is built from one operand only.',
        note='std checked_* contract trusted; f64 arithmetic is IEEE by construction'),
    'C05': dict(
        category='proof', design_ref='DESIGN.md §5 C05',
        technique='type-closure + HIR item enumeration + MIR call-site rules + rustc compile_fail witnesses',
        text='In safe Rust execute(&Program,&Context) can only mutate through unsafe code, interior mutability or global state; each is excluded by exhaustive enumeration (no user unsafe, no UnsafeCell/Rc in the type closure of the shared types, no statics/thread-locals, Arc::make_mut only on owned operands, no nondeterministic API) and the sharing pattern itself is type-checked by rustc (Send+Sync and scoped-thread witnesses, compile_fail twins). This is a proof modulo the trusted base, the right level because the property is exactly what the type system enforces.',
        note='trusted: rustc, std Arc contract, the reviewed nondeterminism deny-list; host closures and dependency internals are outside the claim; HashMap order exempt by the property'),
}

def main():
    checks = []
    for p in props:
        pid = p['id']
        if pid not in CHECKS:
            continue
        c = CHECKS[pid]
        checks.append({
            'property_id': pid,
            'quick_cmd': './check %s quick' % pid,
            'thorough_cmd': './check %s thorough' % pid,
            'evidence_file': '/verif/evidence/%s.json' % pid,
            'replay_cmd_template': 'cat {path}',
            'engine': 'static-rules',
            'level_claimed': {'category': c['category'], 'text': c['text'], 'design_ref': c['design_ref']},
            'level_note': c['note'],
            'technique': c['technique'],
        })
    na = []
    for p in props:
        if p['id'] not in CHECKS:
            na.append({'property_id': p['id'], 'reason': NA.get(p['id'], NOT_BUILT)})
    m = {
        'version': 1,
        'setup_cmd': 'cd /verif/driver && CARGO_NET_OFFLINE=true cargo +nightly build --release --offline',
        'hooks': {'guard': 'none', 'enable': 'no hooks: the checks are static (rustc fact driver over the unmodified sources)',
                  'baseline_off_cmd': 'cd /repo && cargo test --workspace --no-fail-fast --offline',
                  'source_commits': [], 'add_only': True},
        'engines': [
            {'name': 'static-rules', 'path': '/verif/check', 'serves_properties': sorted(CHECKS),
             'kind_free_text': 'rustc_private fact extractor (driver/) dumping resolved HIR items, type closures and MIR; Python rule engine (rules/) with CFG, dominators, provenance, SCCP, decision-tree recovery; ANTLR ATN decoder; rustc compile_fail witnesses (witness/); fixture crate of positive examples (fixtures/)'},
        ],
        'checks': checks,
        'notes': 'Technique family: static analysis only. No check executes CEL programs. See DESIGN.md.',
        'not_applicable': na,
    }
    json.dump(m, open(os.path.join(HERE, 'MANIFEST.json'), 'w'), indent=1)
    print('claimed:', [c['property_id'] for c in checks], 'n/a:', [x['property_id'] for x in na])

if __name__ == '__main__':
    main()
