#!/bin/bash
# usage: mkfacts.sh <repo> <outdir> [cargo args...]   (cargo args default to "-p cel-interpreter")
# env VERIF_FACT_CRATES overrides the crates to dump
# Runs the fact-extraction driver over cel-parser + cel-interpreter in a fresh
# target directory (a warm one would make cargo skip the wrapper) and removes it.
set -u
REPO=$1; OUT=$2; shift 2
DRV=/verif/driver/target/release/cel-facts-driver
[ -x "$DRV" ] || { echo "driver not built: run setup_cmd" >&2; exit 2; }
mkdir -p "$OUT"
T=$(mktemp -d /var/tmp/verif-target.XXXXXX)
trap 'rm -rf "$T"' EXIT
cd "$REPO" || exit 2
LD_LIBRARY_PATH=$(rustc +nightly --print sysroot)/lib \
RUSTFLAGS="-Zmir-opt-level=0 -Coverflow-checks=on -Cdebug-assertions=off -Awarnings" \
RUSTC_WORKSPACE_WRAPPER=$DRV CARGO_NET_OFFLINE=true \
VERIF_FACT_CRATES=${VERIF_FACT_CRATES:-cel_parser,cel_interpreter} VERIF_FACT_DIR="$OUT" CARGO_TARGET_DIR="$T" \
cargo +nightly check --offline ${VERIF_PKG--p cel-interpreter} "$@" > "$OUT/cargo.log" 2>&1
rc=$?
if [ $rc -ne 0 ]; then tail -30 "$OUT/cargo.log" >&2; fi
exit $rc
